# -*- coding: utf-8 -*-
"""
M -- program model of /repo/nixio built from source only (ast); never imports nixio.

Gives: modules with resolved imports, classes with C3-ish MRO, functions/properties,
module-level constants (folded), enum classes, name resolution through module
aliases and package re-exports.
"""
import ast
import os
import hashlib

REPO = os.environ.get("NIXSA_REPO", "/repo")
PKG = "nixio"


class AnalysisError(Exception):
    """the analyser could not classify something -> exit 2 (never a silent pass)"""


class Func:
    def __init__(self, module, cls, node, kind="fn", deco=None, outer=None):
        self.module = module            # Module
        self.cls = cls                  # ClassInfo or None
        self.node = node
        self.kind = kind                # fn | get | set | del
        self.deco = deco                # classmethod | staticmethod | None
        self.outer = outer              # enclosing Func for nested defs
        self.name = node.name if hasattr(node, "name") else "<lambda>"
        suffix = {"fn": "", "get": "", "set": "@set", "del": "@del"}[kind]
        owner = (cls.name + ".") if cls else ""
        pre = (outer.qual + ".<locals>.") if outer else (module.name + ":")
        self.qual = pre + owner + self.name + suffix

    @property
    def params(self):
        a = self.node.args
        return [x.arg for x in a.posonlyargs + a.args]

    @property
    def file(self):
        return self.module.relpath

    def __repr__(self):
        return "<Func %s>" % self.qual

    def is_generator(self):
        g = getattr(self, "_isgen", None)
        if g is None:
            g = any(isinstance(n, (ast.Yield, ast.YieldFrom)) for n in walk_local(self.node))
            self._isgen = g
        return g


def walk_local(node):
    """ast.walk that does not descend into nested function/class/lambda bodies"""
    todo = list(ast.iter_child_nodes(node))
    while todo:
        n = todo.pop()
        yield n
        if isinstance(n, (ast.FunctionDef, ast.AsyncFunctionDef, ast.Lambda, ast.ClassDef)):
            continue
        todo.extend(ast.iter_child_nodes(n))


class ClassInfo:
    def __init__(self, module, node):
        self.module = module
        self.node = node
        self.name = node.name
        self.base_exprs = node.bases
        self.bases = []                 # resolved: ClassInfo or ('ext', dotted)
        self.methods = {}
        self.getters = {}
        self.setters = {}
        self.deleters = {}
        self.attrs = {}                 # class-level assignments name -> expr node
        self.attr_alts = {}             # name -> every class-level assignment (both branches of a class-level `if`)
        self.is_enum = False

    def __repr__(self):
        return "<Class %s>" % self.name


class Module:
    def __init__(self, name, path, relpath, tree, src):
        self.name = name                # dotted, e.g. nixio.util.units
        self.path = path
        self.relpath = relpath
        self.tree = tree
        self.src = src
        self.is_pkg = os.path.basename(path) == "__init__.py"
        self.imports = {}               # local name -> ('mod', dotted) | ('from', dotted_mod, name)
        self.funcs = {}
        self.classes = {}
        self.assigns = {}               # name -> expr node (last top-level assignment)

    def package(self):
        return self.name if self.is_pkg else self.name.rsplit(".", 1)[0]


class Model:
    def __init__(self, repo=None):
        self.repo = repo or REPO
        self.root = os.path.join(self.repo, PKG)
        self.modules = {}
        self.classes = {}               # simple name -> ClassInfo (names are unique in nixio; checked)
        self.funcs = {}                 # qual -> Func
        self.digest = None
        self._load()
        self._link()

    # ------------------------------------------------------------------ loading
    def _load(self):
        h = hashlib.sha256()
        if not os.path.isdir(self.root):
            raise AnalysisError("package directory not found: %s" % self.root)
        for d, dirs, files in os.walk(self.root):
            dirs[:] = sorted(x for x in dirs if x not in ("test", "__pycache__"))
            for f in sorted(files):
                if not f.endswith(".py"):
                    continue
                p = os.path.join(d, f)
                rel = os.path.relpath(p, self.repo)
                src = open(p, encoding="utf-8").read()
                h.update(rel.encode() + b"\0" + src.encode() + b"\0")
                try:
                    tree = ast.parse(src, filename=rel)
                except SyntaxError as e:
                    raise AnalysisError("cannot parse %s: %s" % (rel, e))
                modname = rel[:-3].replace(os.sep, ".")
                if modname.endswith(".__init__"):
                    modname = modname[:-len(".__init__")]
                m = Module(modname, p, rel, tree, src)
                self.modules[modname] = m
                self._scan_module(m)
        self.digest = h.hexdigest()

    def _scan_module(self, m):
        for n in self._toplevel(m.tree.body):
            if isinstance(n, ast.Import):
                for a in n.names:
                    m.imports[a.asname or a.name.split(".")[0]] = ("mod", a.name if a.asname else a.name.split(".")[0])
            elif isinstance(n, ast.ImportFrom):
                base = self._abs_from(m, n)
                for a in n.names:
                    m.imports[a.asname or a.name] = ("from", base, a.name)
            elif isinstance(n, ast.FunctionDef):
                f = Func(m, None, n)
                m.funcs[n.name] = f
                self.funcs[f.qual] = f
                self._scan_nested(f)
            elif isinstance(n, ast.ClassDef):
                self._scan_class(m, n)
            elif isinstance(n, ast.Assign):
                for t in n.targets:
                    if isinstance(t, ast.Name):
                        m.assigns[t.id] = n.value
        # module-level names that some function rebinds (`global x` + assignment) are variables, not constants
        m.mutable_globals = set()
        for n in ast.walk(m.tree):
            if isinstance(n, ast.Global):
                m.mutable_globals.update(n.names)

    def _toplevel(self, body):
        # flatten try/except ImportError and simple if blocks at module level
        for n in body:
            if isinstance(n, ast.Try):
                for x in self._toplevel(n.body):
                    yield x
            elif isinstance(n, ast.If):
                for x in self._toplevel(n.body):
                    yield x
                for x in self._toplevel(n.orelse):
                    yield x
            else:
                yield n

    def _abs_from(self, m, n):
        if n.level == 0:
            return n.module
        pkg = m.name if m.is_pkg else m.name.rsplit(".", 1)[0]
        for _ in range(n.level - 1):
            pkg = pkg.rsplit(".", 1)[0]
        return pkg + ("." + n.module if n.module else "")

    def _scan_class(self, m, n):
        c = ClassInfo(m, n)
        if n.name in self.classes:
            raise AnalysisError("duplicate class name %s (%s, %s)" % (n.name, self.classes[n.name].module.name, m.name))
        self.classes[n.name] = c
        m.classes[n.name] = c
        for b in self._toplevel(n.body):
            if isinstance(b, ast.FunctionDef):
                kind, deco = "fn", None
                for d in b.decorator_list:
                    if isinstance(d, ast.Name) and d.id == "property":
                        kind = "get"
                    elif isinstance(d, ast.Attribute) and d.attr == "setter":
                        kind = "set"
                    elif isinstance(d, ast.Attribute) and d.attr == "deleter":
                        kind = "del"
                    elif isinstance(d, ast.Name) and d.id in ("classmethod", "staticmethod"):
                        deco = d.id
                f = Func(m, c, b, kind, deco)
                {"fn": c.methods, "get": c.getters, "set": c.setters, "del": c.deleters}[kind][b.name] = f
                self.funcs[f.qual] = f
                self._scan_nested(f)
            elif isinstance(b, ast.Assign):
                for t in b.targets:
                    if isinstance(t, ast.Name):
                        c.attrs[t.id] = b.value
                        c.attr_alts.setdefault(t.id, []).append(b.value)

    def _scan_nested(self, f):
        f.nested = {}
        for n in walk_local(f.node):
            if isinstance(n, ast.FunctionDef):
                g = Func(f.module, None, n, outer=f)
                g.owner_cls = f.cls
                f.nested[n.name] = g
                self.funcs[g.qual] = g
                self._scan_nested(g)

    # ------------------------------------------------------------------ linking
    def _link(self):
        for c in self.classes.values():
            for b in c.base_exprs:
                r = self.resolve_expr_static(c.module, b)
                if r and r[0] == "class":
                    c.bases.append(r[1])
                else:
                    c.bases.append(("ext", ast.unparse(b)))
        for c in self.classes.values():
            c.is_enum = any((isinstance(b, tuple) and b[1].split(".")[-1] == "Enum") for b in c.bases) or \
                any(isinstance(b, ClassInfo) and b.is_enum for b in c.bases)
        self._mro = {}
        self._expand_property_factories()

    def _expand_property_factories(self):
        """class level `name = factory(args)` where the package function `factory` ends in `return property(g[, s[, d]])` over
        functions nested in it: the accessors are registered as the class's getter / setter / deleter `name`, specialised by
        substituting the factory's parameters with the call's arguments (constants, or names when factory and class share a
        module). Anything else stays an unmodelled class attribute."""
        import copy
        for c in list(self.classes.values()):
            for attr, val in list(c.attrs.items()):
                if not isinstance(val, ast.Call) or attr in c.getters:
                    continue
                r = self.resolve_expr_static(c.module, val.func)
                if not r or r[0] != "func":
                    continue
                F = r[1]
                body = [b for b in F.node.body if not (isinstance(b, ast.Expr) and isinstance(b.value, ast.Constant))]
                if not body or not isinstance(body[-1], ast.Return) or not isinstance(body[-1].value, ast.Call):
                    continue
                pc = body[-1].value
                if not (isinstance(pc.func, ast.Name) and pc.func.id == "property"):
                    continue
                if not all(isinstance(b, ast.FunctionDef) or (isinstance(b, ast.Assign) and isinstance(b.value, ast.Constant))
                           for b in body[:-1]):
                    continue
                nested = {b.name: b for b in body[:-1] if isinstance(b, ast.FunctionDef)}
                roles = dict(zip(("fget", "fset", "fdel"), pc.args))
                roles.update({k.arg: k.value for k in pc.keywords if k.arg in ("fget", "fset", "fdel")})
                if not roles or not all(isinstance(v, ast.Name) and v.id in nested for v in roles.values()):
                    continue
                # parameter -> argument expression
                a = F.node.args
                names = [x.arg for x in a.posonlyargs + a.args]
                if a.vararg or a.kwarg or len(val.args) > len(names) or any(isinstance(x, ast.Starred) for x in val.args):
                    continue
                sub = dict(zip(names, val.args))
                sub.update({k.arg: k.value for k in val.keywords if k.arg in names})
                defaults = dict(zip(names[len(names) - len(a.defaults):], a.defaults))
                for nm in names:
                    sub.setdefault(nm, defaults.get(nm))
                if any(v is None for v in sub.values()):
                    continue
                same = F.module is c.module
                if not all(isinstance(v, ast.Constant) or (same and isinstance(v, (ast.Name, ast.Attribute))) for v in sub.values()):
                    continue

                class _Subst(ast.NodeTransformer):
                    def visit_Name(self, node):
                        if isinstance(node.ctx, ast.Load) and node.id in sub:
                            return ast.copy_location(copy.deepcopy(sub[node.id]), node)
                        return node
                for role, kind in (("fget", "get"), ("fset", "set"), ("fdel", "del")):
                    if role not in roles:
                        continue
                    src = nested[roles[role].id]
                    if any(isinstance(x, ast.Name) and isinstance(x.ctx, ast.Store) and x.id in sub for x in ast.walk(src)) or \
                            any(x.arg in sub for x in src.args.args):
                        break
                    node = _Subst().visit(copy.deepcopy(src))
                    node.name = attr
                    ast.fix_missing_locations(node)
                    f = Func(F.module, c, node, kind)
                    {"get": c.getters, "set": c.setters, "del": c.deleters}[kind][attr] = f
                    self.funcs[f.qual] = f
                    self._scan_nested(f)
                else:
                    c.attrs.pop(attr, None)
                    c.attr_alts.pop(attr, None)

    def mro(self, c):
        if isinstance(c, str):
            c = self.classes[c]
        if c.name in self._mro:
            return self._mro[c.name]
        seqs = [[c]] + [list(self.mro(b)) for b in c.bases if isinstance(b, ClassInfo)] + \
               [[b for b in c.bases if isinstance(b, ClassInfo)]]
        out = []
        seqs = [s for s in seqs if s]
        while seqs:
            for s in seqs:
                head = s[0]
                if not any(head in t[1:] for t in seqs):
                    break
            else:
                raise AnalysisError("inconsistent MRO for %s" % c.name)
            out.append(head)
            for s in seqs:
                if s and s[0] is head:
                    del s[0]
            seqs = [s for s in seqs if s]
        self._mro[c.name] = out
        return out

    def ext_bases(self, c):
        out = []
        for k in self.mro(c):
            out += [b[1] for b in k.bases if isinstance(b, tuple)]
        return out

    def is_subclass(self, c, d):
        if isinstance(c, str):
            c = self.classes.get(c)
        if isinstance(d, str):
            d = self.classes.get(d)
        if c is None or d is None:
            return False
        return d in self.mro(c)

    def subclasses(self, c):
        if isinstance(c, str):
            c = self.classes[c]
        return [k for k in self.classes.values() if c in self.mro(k)]

    def lookup(self, c, name, table="methods", after=None):
        """find member through the MRO; `after`: start after that class (super())"""
        if isinstance(c, str):
            c = self.classes[c]
        m = self.mro(c)
        if after is not None:
            if isinstance(after, str):
                after = self.classes[after]
            if after in m:
                m = m[m.index(after) + 1:]
        for k in m:
            t = getattr(k, table)
            if name in t:
                return t[name]
        return None

    def lookup_class_attr(self, c, name):
        for k in self.mro(c):
            if name in k.attrs:
                return k, k.attrs[name]
        return None

    # --------------------------------------------------- static name resolution
    def module_member(self, modname, name, _seen=None):
        """resolve `name` inside module `modname` to ('class',C)|('func',F)|('mod',dotted)|('const',node,module)|('ext',dotted)"""
        _seen = _seen or set()
        if (modname, name) in _seen:
            return None
        _seen.add((modname, name))
        m = self.modules.get(modname)
        if m is None:
            return ("ext", modname + "." + name)
        if name in m.classes:
            return ("class", m.classes[name])
        if name in m.funcs:
            return ("func", m.funcs[name])
        if name in m.imports:
            imp = m.imports[name]
            if imp[0] == "mod":
                return ("mod", imp[1]) if imp[1] in self.modules or imp[1].split(".")[0] == PKG else ("ext", imp[1])
            base, nm = imp[1], imp[2]
            if base + "." + nm in self.modules:
                return ("mod", base + "." + nm)
            if base in self.modules:
                return self.module_member(base, nm, _seen)
            return ("ext", base + "." + nm)
        if name in m.assigns:
            return ("const", m.assigns[name], m)
        if m.is_pkg and modname + "." + name in self.modules:
            return ("mod", modname + "." + name)
        return None

    def resolve_expr_static(self, module, e):
        """resolve a Name / dotted Attribute chain in module scope"""
        if isinstance(e, ast.Name):
            return self.module_member(module.name, e.id)
        if isinstance(e, ast.Attribute):
            base = self.resolve_expr_static(module, e.value)
            if base is None:
                return None
            if base[0] == "mod":
                return self.module_member(base[1], e.attr)
            if base[0] == "ext":
                return ("ext", base[1] + "." + e.attr)
            if base[0] == "class":
                c = base[1]
                r = self.lookup_class_attr(c, e.attr)
                if r:
                    return ("classattr", r[0], e.attr, r[1])
                f = self.lookup(c, e.attr)
                if f:
                    return ("func", f)
            return None
        return None

    # --------------------------------------------------------------- enums
    def enum_members(self, c):
        """canonical member per value: {member_name: canonical_name}, and ordered canonical list"""
        if isinstance(c, str):
            c = self.classes[c]
        canon_by_val = {}
        alias = {}
        order = []
        for n in c.node.body:
            if isinstance(n, ast.Assign) and len(n.targets) == 1 and isinstance(n.targets[0], ast.Name) \
                    and isinstance(n.value, ast.Constant):
                v = n.value.value
                nm = n.targets[0].id
                if v in canon_by_val:
                    alias[nm] = canon_by_val[v]
                else:
                    canon_by_val[v] = nm
                    alias[nm] = nm
                    order.append(nm)
        return alias, order, {v: k for v, k in canon_by_val.items()}

    # --------------------------------------------------------------- misc
    def func(self, qual):
        f = self.funcs.get(qual)
        if f is None:
            raise AnalysisError("function not found in /repo: %s" % qual)
        return f

    def cls(self, name):
        c = self.classes.get(name)
        if c is None:
            raise AnalysisError("class not found in /repo: %s" % name)
        return c

    def api_member(self, cname, name, table="methods"):
        f = self.lookup(self.cls(cname), name, table)
        return f

    def stats(self):
        return {"modules": len(self.modules), "classes": len(self.classes), "functions": len(self.funcs)}


def loc(func_or_mod, node):
    f = func_or_mod.file if isinstance(func_or_mod, Func) else func_or_mod.relpath
    return "%s:%d" % (f, getattr(node, "lineno", 0))
