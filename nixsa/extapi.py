# -*- coding: utf-8 -*-
"""
EXT -- external API linkage: every attribute chain rooted at an imported third-party module (numpy, h5py) that the
package mentions must exist in the installed module -- the Python analogue of "does it link". The chains are collected
from the source (ast); only their *existence* is probed, in a helper process under the repository's own interpreter
(/venv/bin/python) that imports numpy/h5py but never nixio. Chains below a test of a library version are reported as
guarded and not required.
"""
import ast
import json
import os
import subprocess

ROOTS = {"numpy", "h5py"}
PY = "/venv/bin/python" if os.path.exists("/venv/bin/python") else "python3"


def chains(M):
    """{(root module dotted, 'a.b.c'): [(file, line, guarded)]}"""
    out = {}
    for m in M.modules.values():
        if m.name.startswith("nixio.cmd.explore"):
            continue
        alias = {}
        for local, imp in m.imports.items():
            dotted = imp[1] if imp[0] == "mod" else (imp[1] + "." + imp[2])
            if dotted.split(".")[0] in ROOTS:
                alias[local] = dotted
        if not alias:
            continue
        parents = {}
        for n in ast.walk(m.tree):
            for c in ast.iter_child_nodes(n):
                parents[c] = n

        def guarded(n):
            while n in parents:
                p = parents[n]
                if isinstance(p, (ast.If, ast.IfExp)) and "__version__" in ast.unparse(p.test):
                    return True
                if isinstance(p, ast.Try) and any(h.type is not None and "AttributeError" in ast.unparse(h.type) for h in p.handlers):
                    return True
                n = p
            return False
        for n in ast.walk(m.tree):
            if isinstance(n, ast.Attribute) and not isinstance(parents.get(n), ast.Attribute):
                parts = []
                y = n
                while isinstance(y, ast.Attribute):
                    parts.append(y.attr)
                    y = y.value
                if isinstance(y, ast.Name) and y.id in alias:
                    out.setdefault((alias[y.id], ".".join(parts[::-1])), []).append((m.relpath, n.lineno, guarded(n)))
    return out


PROBE = r'''
import importlib, json, sys
req = json.load(sys.stdin)
res = {}
for root, chain in req:
    key = root + "|" + chain
    try:
        obj = importlib.import_module(root)
    except Exception as e:
        res[key] = "import failed: %r" % (e,)
        continue
    ok = True
    import warnings
    with warnings.catch_warnings():
        warnings.simplefilter("ignore")
        for i, part in enumerate(chain.split(".")):
            try:
                obj = getattr(obj, part)
            except AttributeError:
                # only the module/class levels are probed: attributes of *values* (results of calls) are not statically known
                res[key] = "missing: %s has no attribute %r" % (".".join([root] + chain.split(".")[:i]), part)
                ok = False
                break
            except Exception as e:
                res[key] = "error: %r" % (e,)
                ok = False
                break
            if not (isinstance(obj, type) or type(obj).__name__ == "module") :
                break
    if ok:
        res[key] = "ok"
json.dump(res, sys.stdout)
'''


def probe(reqs):
    reqs = list(reqs) + [("numpy", "this_attribute_does_not_exist_nixsa_control")]
    p = subprocess.run([PY, "-c", PROBE], input=json.dumps(reqs).encode(), stdout=subprocess.PIPE, stderr=subprocess.PIPE, timeout=120)
    if p.returncode != 0:
        from .model import AnalysisError
        raise AnalysisError("EXT probe failed: %s" % p.stderr.decode()[-300:])
    res = json.loads(p.stdout.decode())
    if res.get("numpy|this_attribute_does_not_exist_nixsa_control") == "ok":
        from .model import AnalysisError
        raise AnalysisError("EXT probe is broken: the control attribute was reported present")
    res.pop("numpy|this_attribute_does_not_exist_nixsa_control", None)
    return res
