# -*- coding: utf-8 -*-
"""
PX core -- path-sensitive abstract interpretation of one entry point over the inlined
control-flow structure. No solver: branch conditions are *syntactic atoms* over abstract
terms; an undecided atom forks the path (restart-with-decision-log scheme). The result
is the finite set of abstract paths (decisions, storage events, terminal).
"""
import ast
from .values import V, const, NONE, TRUE, FALSE, is_const, show, symbols, vsymbols
from .model import AnalysisError, loc


class Need(Exception):
    def __init__(self, atom, domain):
        self.atom = atom
        self.domain = domain


class Budget(Exception):
    pass


class _Return(Exception):
    def __init__(self, v):
        self.v = v


class _Raise(Exception):
    def __init__(self, exc):
        self.exc = exc          # ExcInfo


class _Break(Exception):
    pass


class _Continue(Exception):
    pass


class ExcInfo:
    def __init__(self, cls, site, func, ctrl, explicit=True, value=None, stack=()):
        self.cls = cls          # class name string ('KeyError', 'DuplicateName', ...)
        self.site = site        # file:line
        self.func = func        # qual of raising function
        self.ctrl = ctrl        # frozenset of symbols controlling the raise
        self.explicit = explicit
        self.value = value
        self.stack = stack

    def __repr__(self):
        return "<raise %s at %s>" % (self.cls, self.site)


class Event:
    __slots__ = ("kind", "op", "recv", "key", "args", "kw", "site", "func", "stack", "ctrl", "idx", "loop", "handler")

    def __init__(self, kind, op, recv=None, key=None, args=(), kw=None, site=None, func=None, stack=(), ctrl=(),
                 loop=(), handler=False):
        self.kind = kind        # 'layer' | 'raw' | 'ucall' | 'rcall' | 'ext' | 'yield' | 'mark'
        self.op = op
        self.recv = recv        # V or None
        self.key = key          # V or None
        self.args = args        # tuple of V
        self.kw = kw or {}
        self.site = site
        self.func = func
        self.stack = stack      # tuple of quals (outermost first)
        self.ctrl = ctrl        # tuple of (cond V, polarity) active when the event happened
        self.loop = loop
        self.handler = handler
        self.idx = -1

    def __repr__(self):
        return "<%s %s %s key=%s @%s>" % (self.kind, self.op, show(self.recv.t) if self.recv else "",
                                          show(self.key.t) if self.key else "", self.site)

    def brief(self):
        return "%s:%s(%s%s) @%s" % (self.kind, self.op, show(self.recv.t) if self.recv is not None else "",
                                    (", key=" + show(self.key.t)) if self.key is not None else "", self.site)


class Frame:
    def __init__(self, func, env, selfv, clsctx, module):
        self.func = func
        self.env = env
        self.selfv = selfv
        self.clsctx = clsctx    # class in which the function is defined (for super())
        self.module = module
        self.ctrl = []          # list of (cond V, polarity)
        self.loop = []
        self.try_catch = []     # list of sets of caught class names (innermost last)
        self.in_handler = 0
        self.cur_exc = None


class Path:
    def __init__(self, decisions, events, terminal, notes):
        self.decisions = decisions      # list of (atom, value)
        self.events = events
        self.terminal = terminal        # ('return', V) | ('raise', ExcInfo)
        self.notes = notes

    @property
    def normal(self):
        return self.terminal[0] == "return"

    def describe(self, maxev=40):
        out = []
        for a, v in self.decisions:
            out.append("  decide %s = %s" % (show(a), v))
        for e in self.events[:maxev]:
            out.append("  event  %s" % e.brief())
        if self.terminal[0] == "return":
            out.append("  return %s" % show(self.terminal[1].t))
        else:
            out.append("  raise  %s at %s" % (self.terminal[1].cls, self.terminal[1].site))
        return "\n".join(out)


BUILTIN_EXC_BASES = {
    "BaseException": None, "Exception": "BaseException", "ArithmeticError": "Exception",
    "LookupError": "Exception", "IndexError": "LookupError", "KeyError": "LookupError",
    "ValueError": "Exception", "TypeError": "Exception", "RuntimeError": "Exception",
    "AttributeError": "Exception", "NameError": "Exception", "OSError": "Exception", "IOError": "OSError",
    "NotImplementedError": "RuntimeError", "UnicodeError": "ValueError", "ImportError": "Exception",
    "StopIteration": "Exception", "ZeroDivisionError": "ArithmeticError", "AssertionError": "Exception",
    "UnicodeDecodeError": "UnicodeError", "UnicodeEncodeError": "UnicodeError",
    "UnboundLocalError": "NameError", "Warning": "Exception", "DeprecationWarning": "Warning",
    "UserWarning": "Warning", "RuntimeWarning": "Warning", "FutureWarning": "Warning",
    "KeyboardInterrupt": "BaseException", "SystemExit": "BaseException", "FileNotFoundError": "OSError",
    "OverflowError": "ArithmeticError", "RecursionError": "RuntimeError", "EOFError": "Exception",
}


class Explorer:
    """drives the restart-based exploration of all abstract paths of one entry point"""

    def __init__(self, interp_factory, max_paths=20000):
        self.factory = interp_factory
        self.max_paths = max_paths

    def run(self):
        paths = []
        stack = [[]]
        runs = 0
        while stack:
            decisions = stack.pop()
            runs += 1
            if len(paths) + len(stack) > self.max_paths:
                raise Budget("more than %d abstract paths" % self.max_paths)
            it = self.factory(decisions)
            try:
                p = it.execute()
                paths.append(p)
            except Need as n:
                for val in reversed(list(n.domain)):
                    stack.append(decisions + [(n.atom, val)])
        return paths, runs
