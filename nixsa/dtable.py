# -*- coding: utf-8 -*-
"""
DT -- decision tables. PX extracts, for a small decision procedure, the complete set of abstract
paths (guards = decided atoms, terminal = return term / raise class). This module compares such a
table with a spec table: for every cell of a finite region abstraction (orderings, enum members,
type classes) the atoms are evaluated on a representative of the cell and the unique matching row
is looked up. Only the *extracted guards* are evaluated, never code of the repository.
"""
import math
import numbers
from .values import show, subterms
from .model import AnalysisError


class Unknown(Exception):
    pass


ISINST_TERMS = {}


class Vec(list):
    """minimal stand-in for a 1-d array in guard evaluation (element-wise comparison only)"""

    def _cmp(self, o, f):
        return Vec(f(x, o) for x in self)

    def __le__(self, o):
        return self._cmp(o, lambda a, b: a <= b)

    def __lt__(self, o):
        return self._cmp(o, lambda a, b: a < b)

    def __ge__(self, o):
        return self._cmp(o, lambda a, b: a >= b)

    def __gt__(self, o):
        return self._cmp(o, lambda a, b: a > b)

    def _zip(self, o, f):
        if isinstance(o, list):
            return Vec(f(a, b) for a, b in zip(self, o))
        return Vec(f(a, o) for a in self)

    def __or__(self, o):
        return self._zip(o, lambda a, b: bool(a) or bool(b))

    def __and__(self, o):
        return self._zip(o, lambda a, b: bool(a) and bool(b))

    def __invert__(self):
        return Vec(not a for a in self)


class TermEval:
    """evaluates abstract terms on a representative valuation; `leaf(term)` supplies the values of opaque terms"""

    def __init__(self, leaf, enums=None, atomfn=None):
        self.leaf = leaf
        self.enums = enums or {}
        self.atomfn = atomfn

    binds = None

    def ev(self, t):
        if self.binds and t in self.binds:
            return self.binds[t]
        r = self.leaf(t)
        if r is not NOTHING:
            return r
        h = t[0]
        if h == "builtin" and t[1] == "Ellipsis":
            return Ellipsis
        if h in ("ext", "builtin") and len(t) == 2 and isinstance(t[1], str):
            return t                # a type / module member: stands for itself (isinstance resolves it)
        if h == "comp":
            return self.comp(t)
        if h == "star":
            return ("*star*", self.ev(t[1]))
        if h == "attr" and t[2] in ("start", "stop", "step", "real", "imag"):
            v = self.ev(t[1])
            if isinstance(v, (slice, int, float)):
                return getattr(v, t[2])
        if h == "const":
            return t[1]
        if h == "enum":
            return ("enum", t[1], t[2])
        if h == "cls":
            return ("cls", t[1])
        if h in ("tuple", "list"):
            return tuple(self.ev(x) for x in t[1]) if h == "tuple" else [self.ev(x) for x in t[1]]
        if h == "dict":
            return {self.ev(k): self.ev(v) for k, v in t[1]}
        if h == "unpack":
            return self.ev(t[1])[t[2]]
        if h == "sub":
            return self.ev(t[1])[self.ev(t[2])]
        if h == "attr" and t[2] == "name":
            v = self.ev(t[1])
            if isinstance(v, tuple) and v and v[0] == "enum":
                return v[2]
        if h == "slice":
            return slice(self.ev(t[1]), self.ev(t[2]), self.ev(t[3]))
        if h == "inv":
            v_ = self.ev(t[1])
            return (not v_) if isinstance(v_, bool) else ~v_
        if h == "neg":
            return -self.ev(t[1])
        if h == "not":
            return not self.ev(t[1])
        if h == "isnone":
            return self.ev(t[1]) is None
        if h == "bin":
            a, b = self.ev(t[2]), self.ev(t[3])
            op = t[1]
            return {"+": lambda: a + b, "-": lambda: a - b, "*": lambda: a * b, "/": lambda: a / b,
                    "//": lambda: a // b, "%": lambda: a % b, "**": lambda: a ** b,
                    "|": lambda: a | b, "&": lambda: a & b, "^": lambda: a ^ b}[op]()
        if h == "cmp":
            a, b = self.ev(t[2]), self.ev(t[3])
            return self.cmp(t[1], a, b)
        if h == "call":
            name = t[1]
            args = [self.ev(x) for x in t[2] if not (isinstance(x, tuple) and x and x[0] == "kw")]
            leafname = name.split(".")[-1] if isinstance(name, str) else name
            flat = []
            for a_ in args:
                if isinstance(a_, tuple) and len(a_) == 2 and a_[0] == "*star*":
                    flat.extend(a_[1])
                else:
                    flat.append(a_)
            args = flat
            if isinstance(name, str) and name.startswith("operator.") and args:
                import operator as _op
                if leafname in ("not_", "truth", "is_", "is_not", "eq", "ne", "lt", "le", "gt", "ge", "contains", "add", "sub", "mul",
                                "neg", "abs", "getitem"):
                    return getattr(_op, leafname)(*args)
            if leafname == "slice":
                return slice(*args)
            if leafname == "range" and name in ("range", "builtins.range") and 1 <= len(args) <= 3 and \
                    all(isinstance(a_, int) and not isinstance(a_, bool) for a_ in args):
                return range(*args)
            if leafname == "len":
                return len(args[0])
            if leafname in ("int",):
                return int(args[0])
            if leafname in ("float",):
                return float(args[0])
            if leafname in ("str",):
                return str(args[0])
            if leafname in ("tuple",):
                return tuple(args[0])
            if leafname in ("list",):
                return list(args[0])
            if leafname == "round":
                if len(args) > 1:
                    return round(args[0], int(args[1]))
                return float(round(args[0]))
            if leafname == "floor":
                return float(math.floor(args[0]))
            if leafname == "ceil":
                return float(math.ceil(args[0]))
            if leafname == "isclose":
                # NumPy's definition: |a - b| <= atol + rtol * |b| (element-wise on a vector)
                nc = lambda a, b: abs(a - b) <= 1e-8 + 1e-5 * abs(b)
                if isinstance(args[0], list):
                    return Vec(nc(a, args[1]) for a in args[0])
                if isinstance(args[1], list):
                    return Vec(nc(args[0], b) for b in args[1])
                return nc(args[0], args[1])
            if leafname == "abs":
                return abs(args[0])
            if leafname in ("max", "min"):
                return {"max": max, "min": min}[leafname](*args)
            if leafname == "bool":
                return bool(args[0])
            if leafname in ("array", "asarray"):
                return Vec(args[0])
            if leafname in ("set", "frozenset"):
                return set(args[0]) if args else set()
            if leafname == "sorted":
                return sorted(args[0])
            if leafname == "sum":
                return sum(args[0])
            if leafname == "diff":
                xs = list(args[0])
                return Vec(b - a for a, b in zip(xs[:-1], xs[1:]))
            if leafname in ("lt", "le", "gt", "ge", "eq", "ne") and len(args) == 2 and \
                    not isinstance(args[0], (list, tuple)) and not isinstance(args[1], (list, tuple)):
                import operator
                return getattr(operator, leafname)(args[0], args[1])
            if leafname in ("equal", "not_equal", "less", "less_equal", "greater", "greater_equal", "lt", "le", "gt", "ge", "eq", "ne"):
                import operator
                op = {"equal": operator.eq, "not_equal": operator.ne, "less": operator.lt, "less_equal": operator.le,
                      "greater": operator.gt, "greater_equal": operator.ge, "lt": operator.lt, "le": operator.le,
                      "gt": operator.gt, "ge": operator.ge, "eq": operator.eq, "ne": operator.ne}[leafname]
                a, b = args[0], args[1]
                la = list(a) if isinstance(a, (list, tuple)) else [a]
                lb = list(b) if isinstance(b, (list, tuple)) else [b]
                if len(la) != len(lb):
                    # NumPy broadcasting of 1-d operands: a length-1 operand is stretched, anything else is an error
                    if len(la) == 1:
                        la = la * len(lb)
                    elif len(lb) == 1:
                        lb = lb * len(la)
                    else:
                        raise ValueError("operands could not be broadcast together")
                return Vec(op(x, y) for x, y in zip(la, lb))
            if leafname == "searchsorted":
                import bisect
                side = "left"
                for x in t[2]:
                    if isinstance(x, tuple) and x and x[0] == "kw" and x[1] == "side":
                        side = self.ev(x[2])
                if len(args) > 2:
                    side = args[2]
                return (bisect.bisect_right if side == "right" else bisect.bisect_left)(list(args[0]), args[1])
            if leafname in ("argmax", "argmin"):
                xs = list(args[0])
                return xs.index(max(xs) if leafname == "argmax" else min(xs))
            if leafname in ("any", "all"):
                return {"any": any, "all": all}[leafname](args[0])
            if leafname in ("flatnonzero", "nonzero"):
                r = Vec(i for i, b in enumerate(args[0]) if b)
                return r if leafname == "flatnonzero" else (r,)
            if leafname == "where":
                return (Vec(i for i, b in enumerate(args[0]) if b),)
            raise Unknown("call %s" % name)
        if h == "mcall":
            recv = self.ev(t[2])
            args = [self.ev(x) for x in t[3]]
            if t[1] in ("count", "index", "lower", "upper", "strip", "lstrip", "rstrip", "format", "startswith", "endswith", "indices",
                        "isdigit", "isnumeric", "isdecimal", "isalpha", "isalnum", "isspace", "replace", "split", "join", "find"):
                return getattr(recv, t[1])(*args)
            raise Unknown("method %s" % t[1])
        raise Unknown(show(t))

    def comp(self, t):
        """list/generator comprehension over one iterable (or a zip of iterables)"""
        _, kind, elt, iters, conds = t
        if len(iters) != 1:
            raise Unknown("nested comprehension")
        it = iters[0]
        counted = None
        start = 0
        if it[0] == "call" and it[1] == "enumerate":
            counted = it[2][0]
            if len(it[2]) > 1:
                start = self.ev(it[2][1])
            it = counted
        if it[0] == "call" and it[1] == "zip":
            srcs = list(it[2])
            seqs = [list(self.ev(x)) for x in srcs]
            n = min(len(x) for x in seqs) if seqs else 0
        else:
            srcs = [it]
            seqs = [list(self.ev(it))]
            n = len(seqs[0])
        out = []
        saved = self.binds
        try:
            for k in range(n):
                b = dict(saved or {})
                for src, seq in zip(srcs, seqs):
                    b[("elem", src, 0)] = seq[k]
                if len(srcs) > 1:
                    b[("elem", it, 0)] = tuple(seq[k] for seq in seqs)
                if counted is not None:
                    b[("idx", counted, 0)] = k + start
                self.binds = b
                if all(bool(self.ev(c)) for c in conds):
                    out.append(self.ev(elt))
        finally:
            self.binds = saved
        return out

    def cmp(self, op, a, b):
        if op in ("==", "is"):
            return a == b
        if op in ("!=", "is not"):
            return a != b
        if op == "<":
            return a < b
        if op == "<=":
            return a <= b
        if op == ">":
            return a > b
        if op == ">=":
            return a >= b
        if op == "in":
            return a in b
        if op == "not in":
            return a not in b
        raise Unknown(op)

    def atom(self, atom):
        """value of a decision atom on this valuation"""
        k = atom[0]
        if self.atomfn is not None:
            r = self.atomfn(atom)
            if r is not NOTHING:
                return r
        if k == "truthy":
            return bool(self.ev(atom[1]))
        if k == "isnone":
            return self.ev(atom[1]) is None
        if k == "eq":
            return self.ev(atom[1]) == self.ev(atom[2])
        if k == "ord":
            a, b = self.ev(atom[1]), self.ev(atom[2])
            return "<" if a < b else ("=" if a == b else ">")
        if k == "in":
            return self.ev(atom[1]) in self.ev(atom[2])
        if k == "isinst":
            return self.isinst(self.ev(atom[1]), atom[2])
        raise Unknown("atom %s" % (atom[0],))

    PYTYPES = {"py:int": int, "py:str": str, "py:float": float, "py:bool": bool, "py:bytes": bytes, "py:list": list,
               "py:tuple": tuple, "py:type": type, "py:slice": slice, "ext:numbers.Integral": numbers.Integral,
               "ext:numbers.Real": numbers.Real, "ext:numbers.Number": numbers.Number}

    def _typenames(self, spec):
        if isinstance(spec, (tuple, list)) and spec and spec[0] == "ext" and isinstance(spec[1], str):
            return ["ext:" + spec[1]]
        if isinstance(spec, (tuple, list)) and spec and spec[0] == "builtin":
            return ["py:" + spec[1]]
        if isinstance(spec, (tuple, list)):
            out = []
            for x in spec:
                out += self._typenames(x)
            return out
        raise Unknown("class expression %r" % (spec,))

    def isinst(self, v, key):
        names = []
        for n in key.split("|"):
            if n.startswith("?:") and n in ISINST_TERMS:
                names += self._typenames(self.ev(ISINST_TERMS[n]))
            else:
                names.append(n)
        for n in names:
            if n in self.PYTYPES:
                if isinstance(v, self.PYTYPES[n]):
                    return True
            elif n.endswith(".Iterable"):
                import collections.abc
                if isinstance(v, collections.abc.Iterable):
                    return True
            elif n.endswith(".Sequence"):
                import collections.abc
                if isinstance(v, collections.abc.Sequence):
                    return True
            elif n.startswith("ext:numpy.bool"):
                if isinstance(v, bool):
                    return True
            elif n.startswith("ext:numpy.str") or n.startswith("ext:numpy.unicode"):
                pass
            else:
                raise Unknown("isinstance %s" % n)
        return False


NOTHING = object()


def select(paths, te, what=""):
    """the rows (paths) whose guards all hold on the valuation"""
    out = []
    for p in paths:
        ok = True
        for a, v in p.decisions:
            try:
                r = te.atom(a)
            except Unknown as e:
                raise AnalysisError("decision table %s depends on an unmodelled condition: %s (%s)" % (what, show(a), e))
            except (TypeError, IndexError, ZeroDivisionError, ValueError, KeyError) as e:
                raise AnalysisError("cannot evaluate guard %s of %s on the representative: %r" % (show(a), what, e))
            if r != v:
                ok = False
                break
        if ok:
            out.append(p)
    return out


def outcome(p, te=None):
    """normalised terminal of a row: ('raise', cls) | ('return', value or term text)"""
    if p.terminal[0] == "raise":
        return ("raise", p.terminal[1].cls)
    t = p.terminal[1].t
    if te is not None:
        try:
            return ("return", te.ev(t))
        except Unknown:
            pass
        except (ZeroDivisionError, OverflowError) as e:
            # the returned expression itself cannot be computed on this representative: the code raises here
            return ("raise", type(e).__name__)
    return ("return", show(t))


def unique_outcome(paths, te, what):
    rows = select(paths, te, what)
    outs = {repr(outcome(p, te)) for p in rows}
    if not rows:
        raise AnalysisError("decision table of %s has no row for a representative valuation" % what)
    if len(outs) != 1:
        raise AnalysisError("decision table of %s is ambiguous on a representative valuation: %s" % (what, sorted(outs)))
    return outcome(rows[0], te), rows[0]
