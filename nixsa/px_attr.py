# -*- coding: utf-8 -*-
"""PX attribute / subscript access, stores and deletes."""
import ast
from .values import V, const, NONE, TRUE, FALSE, is_const, show, obj, clsobj, h5, py
from .model import AnalysisError, Func, ClassInfo
from .px_core import Need, Event
from . import tables as T

PRESENT = V(("present",))


class AttrMixin:

    # ---------------------------------------------------------------- attribute load
    def ev_Attribute(self, e):
        v = self.ev(e.value)
        return self.getattr_value(v, e.attr, e)

    def pick_class(self, v, name, tables=("getters", "methods", "setters", "deleters")):
        """choose the receiver class (forking if several classes resolve `name` differently)"""
        classes = [c for c in self.obj_classes(v) if c in self.M.classes]
        if len(classes) <= 1:
            return classes[0] if classes else None
        res = {}
        for c in classes:
            found = None
            for tb in tables:
                found = self.M.lookup(self.M.classes[c], name, tb)
                if found:
                    break
            res.setdefault(found.qual if found else None, []).append(c)
        if len(res) == 1:
            return classes[0]
        dom = sorted(classes)
        c = self.decide(("typeis", v.t), dom)
        self.refined[v.t] = frozenset([obj(c)])
        return c

    def getattr_value(self, v, name, node):
        hk = (v.t, name)
        tys = self.ty(v)
        nt = self.ntfields.get(v.t)
        if nt is not None and name in nt and v.t[0] == "tuple":
            # field of a namedtuple instance
            return self.lift(v.t[1][nt.index(name)], v.dep)
        if hk in self.heap:
            isprop = False
            for t in tys:
                if t[0] == "obj" and t[1] in self.M.classes and self.M.lookup(self.M.classes[t[1]], name, "getters"):
                    isprop = True
            if not isprop:
                return self.heap[hk].with_dep(v.dep)
        for t in tys:
            k = t[0]
            if k == "mod":
                r = self.M.module_member(t[1], name)
                if r is not None:
                    if r[0] == "const" and name in getattr(r[2], "mutable_globals", ()):
                        return V(("free", r[2].name + "." + name))
                    return self.static_value(r)
                return V(("ext", t[1] + "." + name), [("ext", t[1] + "." + name)])
            if k == "ext":
                d = t[1] + "." + name
                return V(("ext", d), [("ext", d)])
            if k == "cls":
                return self.class_attr(t[1], name, v, node)
            if k == "h5":
                return self.raw_attr(v, t[1], name, node)
        cname = self.pick_class(v, name)
        if cname is not None:
            return self.instance_attr(v, cname, name, node)
        if v.t[0] == "const" and isinstance(v.t[1], (str, bytes)):
            return V(("bmeth", v.t, name), [("pymeth", name)], v.dep)
        # unknown receiver: name keyed conventions
        ty = T.ATTR_TYPES.get(name)
        if ty is not None and not tys:
            return V(("attr", v.t, name), [ty], v.dep)
        self._remember([v])
        return V(("attr", v.t, name), self.elem_attr_ty(v, name), v.dep)

    def elem_attr_ty(self, v, name):
        return ()

    def class_attr(self, cname, name, v, node):
        c = self.M.classes.get(cname)
        if c is None:
            return V(("attr", v.t, name), (), v.dep)
        r = self.M.lookup_class_attr(c, name)
        if r is not None:
            k, expr = r
            if k.is_enum:
                alias, _, _ = self.M.enum_members(k)
                return V(("enum", k.name, alias.get(name, name)), [obj(k.name)])
            return self.eval_in_module(k.module, expr, k)
        f = self.M.lookup(c, name)
        if f is not None:
            return self.bound_method(f, v, cname)
        if name == "__name__":
            return const(cname)
        g = self.M.lookup(c, name, "getters")
        if g is not None:
            return V(("propobj", cname, name), [("propobj", g.qual)])
        return V(("attr", v.t, name), (), v.dep)

    def bound_method(self, f, recv, cname):
        t = ("bm", f.qual, recv.t)
        self.bound[t] = (f, recv, cname)
        return V(t, [("bm", f.qual)], recv.dep)

    def instance_attr(self, v, cname, name, node):
        c = self.M.classes[cname]
        if self.is_layer(cname):
            g = self.M.lookup(c, name, "getters")
            if g is not None:
                return self.layer_call(v, cname, g, [], {}, node)
        g = self.M.lookup(c, name, "getters")
        if g is not None:
            return self.call_function(g, v, [], {}, node, cname)
        f = self.M.lookup(c, name)
        if f is not None:
            return self.bound_method(f, v, cname)
        r = self.M.lookup_class_attr(c, name)
        if r is not None:
            k, expr = r
            if k.is_enum:
                alias, _, _ = self.M.enum_members(k)
                return V(("enum", k.name, alias.get(name, name)), [obj(k.name)])
            return self.eval_in_module(k.module, expr, k)
        for k in self.M.mro(c):
            ty = T.ATTR_TYPES_BY_CLASS.get((k.name, name))
            if ty is not None:
                return V(("attr", v.t, name), [ty], v.dep)
        ty = T.ATTR_TYPES.get(name)
        if ty is not None:
            return V(("attr", v.t, name), [ty], v.dep)
        if c.is_enum and name in ("value", "name"):
            if v.t[0] == "enum":
                if name == "name":
                    return const(v.t[2])
                _, _, byval = self.M.enum_members(c)
                for val, mem in byval.items():
                    if mem == v.t[2]:
                        return const(val)
            return V(("attr", v.t, name), [py("str")], v.dep)
        return V(("attr", v.t, name), (), v.dep)

    def is_layer(self, cname):
        if self.cfg.mode != "layer":
            return False
        c = self.M.classes.get(cname)
        if c is None:
            return False
        return any(k.name in T.LAYER_CLASSES for k in self.M.mro(c))

    def raw_attr(self, v, kind, name, node):
        if name in T.RAW_ATTR:
            k = T.RAW_ATTR[name]
            if k is None:
                return V(("attr", v.t, name), [py("val")], v.dep)
            return V(("attr", v.t, name), [h5(k)], v.dep)
        # method of a raw object
        t = ("rawm", v.t, kind, name)
        self.bound[t] = (None, v, kind)
        return V(t, [("rawm", kind, name)], v.dep)

    # ---------------------------------------------------------------- subscript load
    def ev_Subscript(self, e):
        base = self.ev(e.value)
        idx = self.ev(e.slice)
        return self.getitem_value(base, idx, e)

    def getitem_value(self, base, idx, node):
        dep = base.dep | idx.dep
        tys = self.ty(base)
        for t in tys:
            if t[0] == "h5":
                return self.raw_op(base, t[1], "__getitem__", [idx], {}, node)
        cname = self.pick_class(base, "__getitem__", ("methods",))
        if cname is not None:
            f = self.M.lookup(self.M.classes[cname], "__getitem__")
            if f is not None:
                if self.is_layer(cname):
                    return self.layer_call(base, cname, f, [idx], {}, node)
                return self.call_method(f, base, [idx], {}, node, cname)
        bt = base.t
        if bt[0] in ("tuple", "list") and is_const(idx) and isinstance(idx.t[1], int):
            items = bt[1]
            if not any(x[0] == "star" for x in items) and -len(items) <= idx.t[1] < len(items):
                return self.lift(items[idx.t[1]], dep)
        if bt[0] == "dict" and self._constlike(idx.t):
            for k, val in bt[1]:
                if k == idx.t:
                    return self.lift(val, dep)
        if bt[0] == "gen" and is_const(idx) and isinstance(idx.t[1], int) and 0 <= idx.t[1] < len(bt[1]):
            return self.lift(bt[1][idx.t[1]], dep)
        self._remember([base, idx])
        ety = [t[1] for t in tys if t[0] == "elemty"]
        if not ety:
            ety = [t for t in tys if t[0] == "py" and t[1] in ("ndarray",)]
        return V(("sub", bt, idx.t), ety, dep)

    # ---------------------------------------------------------------- stores
    def bind_target(self, tg, val, node=None):
        if isinstance(tg, ast.Name):
            self.set_local(tg.id, val)
        elif isinstance(tg, (ast.Tuple, ast.List)):
            n = len(tg.elts)
            vt = val.t
            if vt[0] in ("tuple", "list") and len(vt[1]) == n and not any(x[0] == "star" for x in vt[1]):
                for x, sub in zip(tg.elts, vt[1]):
                    self.bind_target(x, self.lift(sub, val.dep))
            else:
                ety = [t[1] for t in val.ty if t[0] == "elemty"]
                for i, x in enumerate(tg.elts):
                    if isinstance(x, ast.Starred):
                        self.bind_target(x.value, V(("unpack", vt, i), (), val.dep))
                    else:
                        self.bind_target(x, V(("unpack", vt, i), ety, val.dep))
        elif isinstance(tg, ast.Attribute):
            recv = self.ev(tg.value)
            self.setattr_value(recv, tg.attr, val, tg)
        elif isinstance(tg, ast.Subscript):
            base = self.ev(tg.value)
            idx = self.ev(tg.slice)
            self.setitem_value(base, idx, val, tg)
        elif isinstance(tg, ast.Starred):
            self.bind_target(tg.value, val)
        else:
            raise AnalysisError("unsupported assignment target %s at %s" % (type(tg).__name__, self.here(tg)))

    def set_local(self, name, val):
        fr = self.frames[-1]
        if name in getattr(fr, "nonlocals", ()):
            d = self.scope_of(name)
            if d is not None:
                d[name] = val
                return
        fr.env[name] = val

    def scope_of(self, name):
        fr = self.frames[-1]
        if name in fr.env:
            return fr.env
        while getattr(fr, "closure_env", None) is not None:
            if name in fr.closure_env:
                return fr.closure_env
            fr = fr.closure_parent
            if fr is None:
                break
        return None

    def setattr_value(self, recv, name, val, node):
        cname = self.pick_class(recv, name, ("setters", "getters"))
        if cname is not None:
            c = self.M.classes[cname]
            s = self.M.lookup(c, name, "setters")
            if s is not None:
                if self.is_layer(cname):
                    self.layer_call(recv, cname, s, [val], {}, node)
                else:
                    self.call_function(s, recv, [val], {}, node, cname)
                return
            g = self.M.lookup(c, name, "getters")
            if g is not None:
                self.raise_exc("AttributeError", node, explicit=False)
        for t in self.ty(recv):
            if t[0] == "h5":
                self.emit(Event("raw", t[1] + ".setattr:" + name, recv, const(name), (val,), site=self.here(node)))
                return
        if not val.ty:
            for cn in self.obj_classes(recv):
                if cn in self.M.classes:
                    for k in self.M.mro(self.M.classes[cn]):
                        ty = T.ATTR_TYPES_BY_CLASS.get((k.name, name))
                        if ty is not None and not val.ty and not is_const(val):
                            val = val.with_ty([ty])
            if not val.ty and not is_const(val) and name in T.ATTR_TYPES:
                val = val.with_ty([T.ATTR_TYPES[name]])
        self.heap[(recv.t, name)] = val
        self._remember([val])
        if recv.t[0] in ("self", "param", "attr"):
            self.emit(Event("heap", "store", recv, const(name), (val,), site=self.here(node)))

    def setitem_value(self, base, idx, val, node):
        for t in self.ty(base):
            if t[0] == "h5":
                self.raw_op(base, t[1], "__setitem__", [idx, val], {}, node)
                return
        cname = self.pick_class(base, "__setitem__", ("methods",))
        if cname is not None:
            f = self.M.lookup(self.M.classes[cname], "__setitem__")
            if f is not None:
                if self.is_layer(cname):
                    self.layer_call(base, cname, f, [idx, val], {}, node)
                else:
                    self.call_method(f, base, [idx, val], {}, node, cname)
                return
        # local container update
        tgt = node.value if isinstance(node, ast.Subscript) else None
        bt = base.t
        if isinstance(tgt, ast.Name):
            d = self.scope_of(tgt.id)
            if d is not None:
                if bt[0] == "list" and is_const(idx) and isinstance(idx.t[1], int) and \
                        -len(bt[1]) <= idx.t[1] < len(bt[1]):
                    items = list(bt[1])
                    items[idx.t[1]] = val.t
                    self._remember([val])
                    d[tgt.id] = V(("list", tuple(items)), base.ty, base.dep | val.dep)
                    return
                if bt[0] == "dict":
                    items = [(k, x) for k, x in bt[1] if k != idx.t] + [(idx.t, val.t)]
                    self._remember([val, idx])
                    d[tgt.id] = V(("dict", tuple(items)), base.ty, base.dep | val.dep)
                    return
        self.emit(Event("local", "setitem", base, idx, (val,), site=self.here(node)))

    def delete_target(self, tg):
        if isinstance(tg, ast.Name):
            self.frames[-1].env.pop(tg.id, None)
        elif isinstance(tg, ast.Attribute):
            recv = self.ev(tg.value)
            cname = self.pick_class(recv, tg.attr, ("deleters",))
            if cname is not None:
                d = self.M.lookup(self.M.classes[cname], tg.attr, "deleters")
                if d is not None:
                    self.call_function(d, recv, [], {}, tg, cname)
                    return
            self.heap.pop((recv.t, tg.attr), None)
        elif isinstance(tg, ast.Subscript):
            base = self.ev(tg.value)
            idx = self.ev(tg.slice)
            for t in self.ty(base):
                if t[0] == "h5":
                    self.raw_op(base, t[1], "__delitem__", [idx], {}, tg)
                    return
            cname = self.pick_class(base, "__delitem__", ("methods",))
            if cname is not None:
                f = self.M.lookup(self.M.classes[cname], "__delitem__")
                if f is not None:
                    if self.is_layer(cname):
                        self.layer_call(base, cname, f, [idx], {}, tg)
                    else:
                        self.call_method(f, base, [idx], {}, tg, cname)
                    return
            self.emit(Event("local", "delitem", base, idx, (), site=self.here(tg)))
        elif isinstance(tg, (ast.Tuple, ast.List)):
            for x in tg.elts:
                self.delete_target(x)
        else:
            raise AnalysisError("unsupported delete target at %s" % self.here(tg))
