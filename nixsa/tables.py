# -*- coding: utf-8 -*-
"""
TAB -- oracle / classification tables. Nothing here is derived from the code under
analysis: these are facts about h5py/HDF5/NumPy/SI and the repo-wide naming conventions
that the resolver relies on (the latter are cross-checked against the source on every run
by rules.common.check_conventions).
"""

# ---- parameter names whose type is a naming convention in nixio (cross-checked) ----------
PARAM_SEEDS = {
    "nixfile": ("obj", "File"),
    "h5group": ("obj", "H5Group"),
    "h5parent": ("obj", "H5Group"),
    "h5dataset": ("obj", "H5DataSet"),
    "dest": ("obj", "H5Group"),
}

# ---- attribute name -> type, used when an instance attribute is not in the abstract heap -----
ATTR_TYPES = {
    "_h5group": ("obj", "H5Group"),
    "_h5dataset": ("obj", "H5DataSet"),
    "_backend": ("obj", "H5Group"),
    "_file": ("obj", "File"),
    "_root": ("obj", "H5Group"),
    "_data": ("obj", "H5Group"),
    "_metadata": ("obj", "H5Group"),
    "_h5file": ("h5", "file"),
}
# per-class overrides (receiver class known)
ATTR_TYPES_BY_CLASS = {
    ("Property", "_h5group"): ("obj", "H5DataSet"),
    ("H5Group", "group"): ("h5", "grp"),
    ("H5Group", "_group"): ("h5", "grp"),
    ("H5Group", "h5obj"): ("h5", "grp"),
    ("H5Group", "_parent"): ("h5", "grp"),
    ("H5DataSet", "_parent"): ("h5", "grp"),
    ("H5DataSet", "dataset"): ("h5", "ds"),
    ("H5DataSet", "h5obj"): ("h5", "ds"),
    ("DataView", "array"): ("obj", "DataArray"),
}

# ---- the hdf5 layer: classes that form the storage boundary in 'layer' mode ---------------------
LAYER_CLASSES = ("H5Group", "H5DataSet")

# return types of layer members (used when the layer is not inlined)
LAYER_RET = {
    "open_group": ("obj", "H5Group"),
    "create_dataset": ("obj", "H5DataSet"),
    "get_dataset": ("obj", "H5DataSet"),
    "get_by_name": ("obj", "H5Group"),
    "get_by_id": ("obj", "H5Group"),
    "get_by_id_or_name": ("obj", "H5Group"),
    "get_by_pos": ("obj", "H5Group"),
    "create_from_h5obj": ("obj", "H5Group"),
    "parent": ("obj", "H5Group"),
    "group": ("h5", "grp"),
    "h5obj": ("h5", "obj"),
    "dataset": ("h5", "ds"),
    "copy": ("h5", "grp"),
    "h5root": ("obj", "H5Group"),
}

# ---- raw h5py operations: (receiver kind, operation) -> effect class -------------------------
#  W* = writes, U = unlink, R = read, N = neutral
RAW_OPS = {
    ("grp", "__setitem__"): "Wlink", ("grp", "__delitem__"): "U", ("grp", "__getitem__"): "R",
    ("grp", "__contains__"): "R", ("grp", "get"): "R", ("grp", "values"): "R", ("grp", "keys"): "R",
    ("grp", "items"): "R", ("grp", "__len__"): "R", ("grp", "__iter__"): "R", ("grp", "visititems"): "R",
    ("grp", "visit"): "R", ("grp", "copy"): "Wcopy", ("grp", "require_dataset"): "Wcreate_ds",
    ("grp", "create_dataset"): "Wcreate_ds", ("grp", "create_group"): "Wgroup", ("grp", "require_group"): "Wgroup",
    ("grp", "move"): "Wlink", ("grp", "__bool__"): "R",
    ("ds", "__setitem__"): "Wdata", ("ds", "__getitem__"): "R", ("ds", "resize"): "Wresize",
    ("ds", "write_direct"): "Wdata", ("ds", "read_direct"): "R", ("ds", "__len__"): "R", ("ds", "len"): "R",
    ("ds", "astype"): "R", ("ds", "fields"): "R",
    ("attrs", "__setitem__"): "Wattr", ("attrs", "__delitem__"): "Uattr", ("attrs", "modify"): "Wattr",
    ("attrs", "create"): "Wattr", ("attrs", "__getitem__"): "R", ("attrs", "get"): "R",
    ("attrs", "__contains__"): "R", ("attrs", "keys"): "R", ("attrs", "items"): "R", ("attrs", "__len__"): "R",
    ("attrs", "__iter__"): "R", ("attrs", "values"): "R", ("attrs", "pop"): "Uattr",
    ("file", "flush"): "FLUSH", ("file", "close"): "CLOSE",
}
# a dataset/group child object of unknown kind ("obj") behaves like either
for (k, op), eff in list(RAW_OPS.items()):
    if k in ("grp", "ds"):
        RAW_OPS.setdefault(("obj", op), eff)
    if k == "grp":
        RAW_OPS.setdefault(("file", op), eff)

# attribute of a raw h5py object -> kind of the result
RAW_ATTR = {
    "attrs": "attrs", "parent": "grp", "file": "file", "id": "oid", "name": None, "shape": None, "dtype": None,
    "mode": None, "filename": None, "links": "links", "compression": None, "chunks": None, "maxshape": None,
    "size": None, "ndim": None, "names": None,
}

# module-level h5py callables
H5PY_CALLS = {
    "h5py.h5g.create": ("Wgroup", ("h5", "oid")),
    "h5py.h5f.create": ("Fcreate", ("h5", "fid")),
    "h5py.h5f.open": ("Fopen", ("h5", "fid")),
    "h5py.File": ("Ffile", ("h5", "file")),
    "h5py.Group": ("N", ("h5", "grp")),
    "h5py.Dataset": ("N", ("h5", "ds")),
    "h5py.h5p.create": ("N", ("h5", "plist")),
    "h5py.string_dtype": ("N", ("py", "dtype")),
}

WRITE_EFFECTS = {"Wlink", "Wattr", "Wdata", "Wresize", "Wcreate_ds", "Wcopy", "Wgroup", "U", "Uattr"}

# ---- names of container groups: creating such an (empty) group is not observable ----------
# (computed from the model at run time: first argument of every Container(...) construction;
#  this static list is only the floor used to detect a broken extraction)
CONTAINER_GROUP_FLOOR = {"data", "metadata", "groups", "data_arrays", "data_frames", "tags", "multi_tags",
                         "sources", "sections", "properties", "references", "features", "dimensions"}

# ---- SI prefixes (BIPM brochure, table 7) ------------------------------------------------------
SI_PREFIX_EXP = {"y": -24, "z": -21, "a": -18, "f": -15, "p": -12, "n": -9, "u": -6, "m": -3, "c": -2, "d": -1,
                 "da": 1, "h": 2, "k": 3, "M": 6, "G": 9, "T": 12, "P": 15, "E": 18, "Z": 21, "Y": 24}

# ---- HDF5 access flags: which allow modification / truncate ------------------------------------
H5F_FLAGS = {"ACC_RDONLY": {"write": False, "trunc": False}, "ACC_RDWR": {"write": True, "trunc": False},
             "ACC_TRUNC": {"write": True, "trunc": True}, "ACC_EXCL": {"write": True, "trunc": False}}

# functions never inlined by default (pure searches / printing); return types given
OPAQUE_DEFAULT = {
    "nixio.util.find:_find_sections": ("list", ("obj", "Section")),
    "nixio.util.find:_find_sources": ("list", ("obj", "Source")),
}

# unit symbols the unit grammar has to know (SI base and derived units with special names, plus the non-SI units accepted for
# use with the SI that NIX files use: litre in both spellings, percent, decibel) -- written from the SI brochure, not from the code
SI_UNIT_SYMBOLS = {"m", "g", "s", "A", "K", "mol", "cd",
                   "Hz", "N", "Pa", "J", "W", "C", "V", "F", "Ohm", "S", "Wb", "T", "H", "lm", "lx", "Bq", "Gy", "Sv", "kat", "rad",
                   "l", "L", "%", "dB"}
