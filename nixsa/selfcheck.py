# -*- coding: utf-8 -*-
"""
Self-validation of a property's rules (thorough tier). On scratch copies of the CURRENT /repo/nixio (fresh temporary
directory, removed immediately) the quick check of the property is re-run
  * with each seeded change that is recorded as reported by this property applied  -> must exit 1 (reported)
  * on behaviour-preserving variants of the whole package                         -> must exit 0 (silent)
The outcome goes into the evidence file; it never changes the exit code of the check (on an edited tree a seeded patch
may legitimately no longer apply: "skipped").
"""
import ast
import glob
import json
import os
import shutil
import subprocess
import sys
import tempfile
from concurrent.futures import ThreadPoolExecutor

VERIF = os.path.dirname(os.path.dirname(os.path.abspath(__file__)))
REPO = os.environ.get("NIXSA_REPO", "/repo")


def scratch():
    d = tempfile.mkdtemp(prefix="nixsa-self-")
    shutil.copytree(os.path.join(REPO, "nixio"), os.path.join(d, "nixio"),
                    ignore=shutil.ignore_patterns("__pycache__", "test", "*.pyc"))
    return d


def run_check(prop, repo, evdir):
    env = dict(os.environ, NIXSA_REPO=repo, NIXSA_EVIDENCE_DIR=evdir, PYTHONDONTWRITEBYTECODE="1", PYTHONPATH=VERIF, VERIF_TIER="quick")
    p = subprocess.run([sys.executable, "-m", "nixsa.main", prop, "--tier", "quick"], cwd=VERIF, env=env,
                       stdout=subprocess.PIPE, stderr=subprocess.STDOUT, timeout=1800)
    out = p.stdout.decode(errors="replace")
    rules = sorted({l.split(" ")[0] for l in out.splitlines() if l[:1] == "C" and "." in l.split(" ")[0] and ":" in l})
    return p.returncode, rules


def variant_unparse(d):
    """every module re-emitted from its AST: comments, layout and line numbers change, behaviour does not"""
    for f in glob.glob(os.path.join(d, "nixio", "**", "*.py"), recursive=True):
        src = open(f, encoding="utf-8").read()
        try:
            out = ast.unparse(ast.parse(src))
        except Exception:
            continue
        open(f, "w", encoding="utf-8").write(out + "\n")


def variant_shift(d):
    """a comment block in front of every module: all line numbers shift"""
    for f in glob.glob(os.path.join(d, "nixio", "**", "*.py"), recursive=True):
        src = open(f, encoding="utf-8").read()
        lines = src.split("\n")
        k = 1 if lines and lines[0].startswith("#") and "coding" in lines[0] else 0
        lines[k:k] = ["# (scratch variant)"] * 7
        open(f, "w", encoding="utf-8").write("\n".join(lines))


class _SwapIf(ast.NodeTransformer):
    """`if c: A else: B`  ->  `if not c: B else: A`   (only plain if/else, not elif chains)"""

    def visit_If(self, node):
        self.generic_visit(node)
        if node.orelse and not (len(node.orelse) == 1 and isinstance(node.orelse[0], ast.If)):
            return ast.If(test=ast.UnaryOp(op=ast.Not(), operand=node.test), body=node.orelse, orelse=node.body)
        return node


def variant_swap_if(d):
    """every if/else with its branches exchanged under the negated condition"""
    for f in glob.glob(os.path.join(d, "nixio", "**", "*.py"), recursive=True):
        src = open(f, encoding="utf-8").read()
        try:
            tree = _SwapIf().visit(ast.parse(src))
            ast.fix_missing_locations(tree)
            out = ast.unparse(tree)
            compile(out, f, "exec")
        except Exception:
            continue
        open(f, "w", encoding="utf-8").write(out + "\n")


class _RenameLocals(ast.NodeTransformer):
    """every local variable of a simple function (no nested defs / lambdas / global statements / local imports) gets a new name"""

    def visit_FunctionDef(self, node):
        inner = [n for n in ast.walk(node) if n is not node and isinstance(n, (ast.FunctionDef, ast.Lambda, ast.ClassDef, ast.Global,
                                                                               ast.Nonlocal, ast.Import, ast.ImportFrom))]
        if inner:
            self.generic_visit(node)
            return node
        a = node.args
        params = {x.arg for x in a.posonlyargs + a.args + a.kwonlyargs}
        if a.vararg:
            params.add(a.vararg.arg)
        if a.kwarg:
            params.add(a.kwarg.arg)
        local = set()
        for n in ast.walk(node):
            if isinstance(n, ast.Name) and isinstance(n.ctx, ast.Store):
                local.add(n.id)
            elif isinstance(n, ast.ExceptHandler) and n.name:
                local.add(n.name)
        local -= params
        for n in ast.walk(node):
            if isinstance(n, ast.Name) and n.id in local:
                n.id = n.id + "_v"
            elif isinstance(n, ast.ExceptHandler) and n.name in local:
                n.name = n.name + "_v"
        return node


class _Messages(ast.NodeTransformer):
    """the text of every exception message changes"""

    def visit_Raise(self, node):
        if isinstance(node.exc, ast.Call):
            for a_ in node.exc.args[:1]:
                for c in ast.walk(a_):
                    if isinstance(c, ast.Constant) and isinstance(c.value, str) and c.value:
                        c.value = c.value + " (reworded)"
        return node


def _transform_all(d, tr):
    for f in glob.glob(os.path.join(d, "nixio", "**", "*.py"), recursive=True):
        src = open(f, encoding="utf-8").read()
        try:
            tree = tr().visit(ast.parse(src))
            ast.fix_missing_locations(tree)
            out = ast.unparse(tree)
            compile(out, f, "exec")
        except Exception:
            continue
        open(f, "w", encoding="utf-8").write(out + "\n")


def variant_rename_locals(d):
    _transform_all(d, _RenameLocals)


def variant_messages(d):
    _transform_all(d, _Messages)


def variant_rename_private(d):
    """every private function / method of the package (single leading underscore, defined with `def`) gets a new name,
    consistently at every mention in the package (attribute and name uses); names that also occur as string literals or
    as non-function attributes are left alone"""
    files = glob.glob(os.path.join(d, "nixio", "**", "*.py"), recursive=True)
    trees = {}
    for f in files:
        if os.sep + "test" + os.sep in f:
            continue
        try:
            trees[f] = ast.parse(open(f, encoding="utf-8").read())
        except SyntaxError:
            continue
    defs = set()
    strings = set()
    stored = set()
    for t in trees.values():
        for n in ast.walk(t):
            if isinstance(n, ast.FunctionDef) and n.name.startswith("_") and not n.name.startswith("__"):
                defs.add(n.name)
            elif isinstance(n, ast.Constant) and isinstance(n.value, str):
                strings.add(n.value)
            elif isinstance(n, ast.Attribute) and isinstance(n.ctx, ast.Store):
                stored.add(n.attr)
            elif isinstance(n, ast.arg):
                stored.add(n.arg)
            elif isinstance(n, ast.Name) and isinstance(n.ctx, ast.Store):
                stored.add(n.id)
    names = {x for x in defs if x not in strings and x not in stored}
    for f, t in trees.items():
        for n in ast.walk(t):
            if isinstance(n, ast.FunctionDef) and n.name in names:
                n.name = n.name + "_p"
            elif isinstance(n, ast.Attribute) and n.attr in names:
                n.attr = n.attr + "_p"
            elif isinstance(n, ast.Name) and n.id in names:
                n.id = n.id + "_p"
            elif isinstance(n, ast.alias) and n.name in names:
                n.name = n.name + "_p"
        out = ast.unparse(t)
        compile(out, f, "exec")
        open(f, "w", encoding="utf-8").write(out + "\n")


BENIGN = [("re-emitted from the AST", variant_unparse), ("line numbers shifted", variant_shift),
          ("if/else branches exchanged under negation", variant_swap_if),
          ("local variables renamed", variant_rename_locals), ("exception messages reworded", variant_messages),
          ("private functions and methods renamed", variant_rename_private)]


def one_seed(prop, sd):
    d = scratch()
    try:
        ap = subprocess.run(["git", "apply", "--whitespace=nowarn", os.path.join(sd, "patch.diff")], cwd=d,
                            stdout=subprocess.PIPE, stderr=subprocess.STDOUT)
        if ap.returncode != 0:
            return {"case": os.path.basename(sd), "kind": "seeded change", "result": "skipped (patch does not apply to the current tree)"}
        rc, rules = run_check(prop, d, os.path.join(d, "ev"))
        return {"case": os.path.basename(sd), "kind": "seeded change", "result": "reported" if rc == 1 else ("analysis-error" if rc == 2 else "MISSED"),
                "rules": rules}
    finally:
        shutil.rmtree(d, ignore_errors=True)


def one_benign(prop, name, fn):
    d = scratch()
    try:
        fn(d)
        rc, rules = run_check(prop, d, os.path.join(d, "ev"))
        return {"case": name, "kind": "behaviour-preserving variant", "result": "silent" if rc == 0 else "ALARM (exit %d)" % rc, "rules": rules}
    finally:
        shutil.rmtree(d, ignore_errors=True)


def run(prop, mod, rep):
    seeds = []
    for sd in sorted(glob.glob(os.path.join(VERIF, "seeded", "C*"))):
        try:
            meta = json.load(open(os.path.join(sd, "meta.json")))
        except Exception:
            continue
        if prop in meta.get("detection", {}).get("fired", []) or meta.get("property") == prop:
            seeds.append(sd)
    jobs = []
    with ThreadPoolExecutor(max_workers=int(os.environ.get("NIXSA_JOBS", "8"))) as ex:
        for sd in seeds:
            jobs.append(ex.submit(one_seed, prop, sd))
        for name, fn in BENIGN:
            jobs.append(ex.submit(one_benign, prop, name, fn))
        results = [j.result() for j in jobs]
    rep.self_validation = {
        "seeded_changes": len(seeds),
        "reported": sum(1 for r in results if r["result"] == "reported"),
        "missed": [r["case"] for r in results if r["result"] == "MISSED"],
        "benign_variants": len(BENIGN),
        "silent": sum(1 for r in results if r["result"] == "silent"),
        "alarms_on_benign": [r["case"] for r in results if r["result"].startswith("ALARM")],
        "cases": results,
    }
    for r in results:
        print("self-validation: %-28s %-22s %s %s" % (r["kind"], r["case"], r["result"], ",".join(r.get("rules", [])[:4])))
