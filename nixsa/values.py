# -*- coding: utf-8 -*-
"""Abstract values (terms + type tags + implicit dependencies) for the path-sensitive analyser."""


class V:
    __slots__ = ("t", "ty", "dep")

    def __init__(self, t, ty=(), dep=()):
        self.t = t
        self.ty = frozenset(ty)
        self.dep = frozenset(dep)

    def with_dep(self, dep):
        if not dep or dep <= self.dep:
            return self
        return V(self.t, self.ty, self.dep | frozenset(dep))

    def with_ty(self, ty):
        return V(self.t, ty, self.dep)

    def __repr__(self):
        return "V(%s)" % (show(self.t),)


def const(v):
    return V(("const", v), [("py", type(v).__name__)])


NONE = const(None)
TRUE = const(True)
FALSE = const(False)


def is_const(v):
    return v.t[0] == "const"


def obj(cname):
    return ("obj", cname)


def clsobj(cname):
    return ("cls", cname)


def h5(kind):
    return ("h5", kind)


def py(kind):
    return ("py", kind)


def subterms(t):
    todo = [t]
    while todo:
        x = todo.pop()
        if isinstance(x, tuple):
            yield x
            todo.extend(x)


def symbols(t):
    """root symbols a term depends on: params, self, storage reads. The *receiver* of a storage read is not
    descended into (what is read is a fact about the file, whichever way the handle was obtained); its key is."""
    out = set()
    todo = [t]
    while todo:
        x = todo.pop()
        if not isinstance(x, tuple) or not x:
            continue
        h = x[0]
        if h == "param":
            out.add(x)
        elif h == "self":
            out.add(x)
        elif h == "rd":
            out.add(("rd", x[1]))
            if len(x) > 3:
                todo.append(x[3])
            continue
        todo.extend(x)
    return out


def params_of(t):
    return {x[1] for x in subterms(t) if x and x[0] == "param"}


def vsymbols(v):
    return symbols(v.t) | set(v.dep)


def vparams(v):
    return params_of(v.t) | {d[1] for d in v.dep if isinstance(d, tuple) and d and d[0] == "param"}


def show(t, depth=0):
    """compact human readable rendering of a term"""
    if not isinstance(t, tuple) or not t:
        return repr(t)
    if depth > 6:
        return "..."
    h = t[0]
    s = lambda x: show(x, depth + 1)
    if h == "const":
        return repr(t[1])
    if h == "param":
        return t[1]
    if h == "self":
        return "self"
    if h == "attr":
        return "%s.%s" % (s(t[1]), t[2])
    if h == "enum":
        return "%s.%s" % (t[1], t[2])
    if h == "inst":
        return "%s#%s" % (t[1], t[2] if len(t) > 2 else "")
    if h == "cls":
        return t[1]
    if h == "call":
        return "%s(%s)" % (t[1], ", ".join(s(a) for a in t[2]))
    if h == "rd":
        return "read[%s %s %s]" % (t[1], s(t[2]), s(t[3]))
    if h == "lres":
        return "%s.%s(%s)" % (s(t[2]), t[1], ", ".join(s(a) for a in t[3]))
    if h == "bin":
        return "(%s %s %s)" % (s(t[2]), t[1], s(t[3]))
    if h == "cmp":
        return "(%s %s %s)" % (s(t[2]), t[1], s(t[3]))
    if h == "not":
        return "not %s" % s(t[1])
    if h == "sub":
        return "%s[%s]" % (s(t[1]), s(t[2]))
    if h == "elem":
        return "elem(%s)%s" % (s(t[1]), "" if len(t) < 3 else "#%s" % (t[2],))
    if h in ("tuple", "list", "set"):
        br = {"tuple": "()", "list": "[]", "set": "{}"}[h]
        return br[0] + ", ".join(s(a) for a in t[1]) + br[1]
    if h == "slice":
        return "slice(%s,%s,%s)" % tuple(s(a) for a in t[1:4])
    return "%s(%s)" % (h, ", ".join(s(a) for a in t[1:]))
