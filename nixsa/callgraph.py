# -*- coding: utf-8 -*-
"""
Resolved call graph and may-write summaries: every function is analysed once by PX with all repo
calls kept opaque (no inlining), which yields its direct storage events and its resolved callees
(unknown receivers fall back to every repo member of that name).
"""
from .px import explore
from .px_core import Budget
from .layer import layer_config
from .effects import FX
from .model import AnalysisError


class CallGraph:
    def __init__(self, M):
        self.M = M
        cfg = layer_config(M)
        cfg.no_inline = True
        cfg.compose = False
        cfg.all_branches = True
        cfg.model_layer_raises = False
        self.cfg = cfg
        self.fx = FX(M, cfg)
        self.by_name = {}
        for f in M.funcs.values():
            self.by_name.setdefault(f.name, []).append(f)
        self.direct = {}
        self.ops = {}
        self.edges = {}
        self.unknown_calls = {}
        for q, f in M.funcs.items():
            if f.module.name.startswith("nixio.cmd.explore"):
                continue
            self._analyse(f)
        self._closure()

    def _analyse(self, f):
        cls = f.cls.name if f.cls is not None else None
        try:
            paths = explore(self.cfg, f, cls, None, 3000,
                            closure_env=_OpaqueEnv() if f.outer is not None else None)
        except Budget:
            paths = None
        except AnalysisError:
            paths = None
        w = set()
        callees = set()
        ops = set()
        self.ops[f.qual] = ops
        if paths is None:
            # fall back: unknown -> may do anything it syntactically mentions
            import ast
            for n in ast.walk(f.node):
                if isinstance(n, ast.Attribute):
                    for g in self.by_name.get(n.attr, ()):
                        callees.add(g.qual)
                elif isinstance(n, ast.Name):
                    for g in self.by_name.get(n.id, ()):
                        callees.add(g.qual)
            self.direct[f.qual] = {"?"}
            self.edges[f.qual] = callees
            return
        for p in paths:
            for e in p.events:
                if e.kind in ("layer", "raw", "ext"):
                    ops.add((e.kind, e.op, self.fx.key(e) if e.kind != "ext" else None))
                if e.kind in ("layer", "raw"):
                    if self.fx.is_observable_write(e):
                        w.add((e.op, self.fx.key(e)))
                elif e.kind in ("ocall", "rcall"):
                    callees.add(e.op)
                elif e.kind == "ucall":
                    for g in self.by_name.get(e.op, ()):
                        callees.add(g.qual)
        self.direct[f.qual] = w
        self.edges[f.qual] = callees

    def _closure(self):
        mw = {q: bool(w) for q, w in self.direct.items()}
        changed = True
        while changed:
            changed = False
            for q, cs in self.edges.items():
                if not mw.get(q) and any(mw.get(c) for c in cs):
                    mw[q] = True
                    changed = True
        self.may_write = mw

    def writes(self, f):
        return self.may_write.get(f.qual, True)

    def reach(self, f):
        seen = set()
        todo = [f.qual]
        while todo:
            q = todo.pop()
            if q in seen:
                continue
            seen.add(q)
            todo.extend(self.edges.get(q, ()))
        return seen


class _OpaqueEnv(dict):
    """closure environment of a nested function analysed on its own: every free name is opaque"""

    def __contains__(self, k):
        return False
