# -*- coding: utf-8 -*-
"""PX expressions: evaluation of ast expressions to abstract values."""
import ast
from .values import V, const, NONE, TRUE, FALSE, is_const, show, obj, clsobj, h5, py
from .model import AnalysisError, Func, ClassInfo, loc
from .px_core import Need, _Raise, ExcInfo, Event
from .values import subterms as _subterms
from . import tables as T

BINOPS = {ast.Add: "+", ast.Sub: "-", ast.Mult: "*", ast.Div: "/", ast.FloorDiv: "//", ast.Mod: "%", ast.Pow: "**",
          ast.BitOr: "|", ast.BitAnd: "&", ast.BitXor: "^", ast.LShift: "<<", ast.RShift: ">>", ast.MatMult: "@"}
CMPOPS = {ast.Eq: "==", ast.NotEq: "!=", ast.Lt: "<", ast.LtE: "<=", ast.Gt: ">", ast.GtE: ">=", ast.Is: "is",
          ast.IsNot: "is not", ast.In: "in", ast.NotIn: "not in"}
BUILTIN_NAMES = {"len", "isinstance", "hasattr", "getattr", "setattr", "str", "int", "float", "bool", "list", "tuple",
                 "dict", "set", "any", "all", "zip", "enumerate", "range", "type", "print", "sum", "max", "min",
                 "sorted", "map", "filter", "super", "object", "bytes", "open", "input", "hash", "repr", "abs",
                 "round", "iter", "next", "callable", "issubclass", "id", "format", "reversed", "slice", "frozenset",
                 "property", "staticmethod", "classmethod", "divmod", "ord", "chr", "vars", "dir", "Ellipsis",
                 "NotImplemented", "__name__", "__file__", "warn"}


class ExprMixin:

    def ev(self, e):
        self.steps += 1
        if self.steps > self.cfg.max_steps:
            raise AnalysisError("step budget exceeded in %s" % self.frames[0].func.qual)
        m = getattr(self, "ev_" + type(e).__name__, None)
        if m is None:
            raise AnalysisError("unsupported expression %s at %s" % (type(e).__name__, self.here(e)))
        return m(e)

    def here(self, node):
        f = self.frames[-1]
        return "%s:%d" % (f.module.relpath, getattr(node, "lineno", 0))

    # ---------------------------------------------------------------- atoms
    def ev_Constant(self, e):
        return const(e.value)

    def ev_Name(self, e):
        name = e.id
        f = self.frames[-1]
        if name in f.env:
            return f.env[name]
        # closure scopes
        fr = f
        while getattr(fr, "closure_env", None) is not None:
            if name in fr.closure_env:
                return fr.closure_env[name]
            fr = fr.closure_parent
            if fr is None:
                break
        cs = getattr(f, "class_scope", None)
        if cs is not None:
            r = self.M.lookup_class_attr(cs, name)
            if r is not None:
                return self.eval_in_module(r[0].module, r[1], r[0])
        return self.global_name(f.module, name, e)

    def global_name(self, module, name, e=None):
        r = self.M.module_member(module.name, name)
        if r is None:
            if name in BUILTIN_EXC_NAMES():
                return V(("cls", name), [("exc", name)])
            if name in BUILTIN_NAMES:
                return V(("builtin", name), [("builtin", name)])
            if e is not None and self.frames[-1].func is not None and self.name_is_local(name):
                self.raise_exc("UnboundLocalError", e, explicit=False)
            root = self.frames[0].func
            if root is not None and root.outer is not None:
                return V(("free", name))
            raise AnalysisError("unresolved name %r at %s" % (name, self.here(e) if e is not None else module.name))
        if r[0] == "const" and name in getattr(r[2], "mutable_globals", ()):
            return V(("free", r[2].name + "." + name))
        return self.static_value(r)

    def name_is_local(self, name):
        f = self.frames[-1].func
        for n in ast.walk(f.node):
            if isinstance(n, ast.Name) and n.id == name and isinstance(n.ctx, ast.Store):
                return True
        return False

    def static_value(self, r):
        k = r[0]
        if k == "class":
            return V(("cls", r[1].name), [clsobj(r[1].name)])
        if k == "func":
            return V(("fn", r[1].qual), [("fn", r[1].qual)])
        if k == "mod":
            return V(("mod", r[1]), [("mod", r[1])])
        if k == "ext":
            return V(("ext", r[1]), [("ext", r[1])])
        if k == "const":
            return self.eval_in_module(r[2], r[1])
        if k == "classattr":
            c = r[1]
            if c.is_enum:
                alias, _, _ = self.M.enum_members(c)
                return V(("enum", c.name, alias.get(r[2], r[2])), [obj(c.name)])
            return self.eval_in_module(c.module, r[3], c)
        raise AnalysisError("cannot turn %r into a value" % (r,))

    def eval_in_module(self, module, node, clsctx=None):
        """evaluate a module/class level constant expression"""
        from .px_core import Frame
        fr = Frame(None, {}, None, clsctx, module)
        if clsctx is not None:
            # class-level names are visible in class-body expressions
            for k, v in clsctx.attrs.items():
                if v is node:
                    break
            fr.class_scope = clsctx
        self.frames.append(fr)
        try:
            if clsctx is not None and isinstance(node, ast.Name) and node.id in clsctx.attrs:
                return self.eval_in_module(module, clsctx.attrs[node.id], clsctx)
            return self.ev(node)
        finally:
            self.frames.pop()

    # ---------------------------------------------------------------- containers
    def ev_Tuple(self, e):
        items = self._items(e.elts)
        return V(("tuple", tuple(i.t for i in items)), [py("tuple")], self._deps(items))

    def ev_List(self, e):
        items = self._items(e.elts)
        return V(("list", tuple(i.t for i in items)), [py("list")], self._deps(items))

    def ev_Set(self, e):
        items = self._items(e.elts)
        return V(("set", tuple(i.t for i in items)), [py("set")], self._deps(items))

    def ev_Dict(self, e):
        ks = [self.ev(k) if k is not None else NONE for k in e.keys]
        vs = [self.ev(v) for v in e.values]
        self._remember(vs)
        return V(("dict", tuple((k.t, v.t) for k, v in zip(ks, vs))), [py("dict")], self._deps(ks + vs))

    def _items(self, elts):
        out = []
        for x in elts:
            if isinstance(x, ast.Starred):
                v = self.ev(x.value)
                out.append(V(("star", v.t), (), v.dep))
            else:
                out.append(self.ev(x))
        self._remember(out)
        return out

    def _remember(self, vals):
        """remember the types of values that get embedded into bigger terms"""
        for v in vals:
            if v.ty:
                self.termty[v.t] = v.ty

    def _deps(self, vals):
        d = set()
        for v in vals:
            d |= v.dep
        return d

    def lift(self, t, dep=()):
        return V(t, self.termty.get(t, ()), dep)

    def ev_Slice(self, e):
        parts = [self.ev(x) if x is not None else NONE for x in (e.lower, e.upper, e.step)]
        return V(("slice",) + tuple(p.t for p in parts), [py("slice")], self._deps(parts))

    def ev_JoinedStr(self, e):
        parts = []
        for x in e.values:
            if isinstance(x, ast.FormattedValue):
                parts.append(self.ev(x.value))
            else:
                parts.append(self.ev(x))
        if all(is_const(p) for p in parts):
            return const("".join(str(p.t[1]) for p in parts))
        return V(("fmt", tuple(p.t for p in parts)), [py("str")], self._deps(parts))

    def ev_FormattedValue(self, e):
        return self.ev(e.value)

    def ev_Starred(self, e):
        v = self.ev(e.value)
        return V(("star", v.t), (), v.dep)

    def ev_Lambda(self, e):
        fr = self.frames[-1]
        return V(("lambda", id(e)), [("lambda", e, fr)])

    def ev_Yield(self, e):
        v = self.ev(e.value) if e.value is not None else NONE
        self.frames[-1].yields.append(v)
        return NONE

    def ev_YieldFrom(self, e):
        """`yield from X`: what X hands out is handed out here, in order (a generator call: its yields; else one element)"""
        v = self.ev(e.value)
        ety = [t[1] for t in v.ty if t[0] == "elemty"]
        if v.t and v.t[0] in ("gen", "tuple", "list") and not any(x and x[0] == "star" for x in v.t[1]):
            for t in v.t[1]:
                self.frames[-1].yields.append(V(t, ety, v.dep))
        else:
            self.frames[-1].yields.append(self.iter_elem(self.iterate_value(v, e.value), 0, e.value))
        return NONE

    def ev_NamedExpr(self, e):
        v = self.ev(e.value)
        self.frames[-1].env[e.target.id] = v
        return v

    # ---------------------------------------------------------------- operators
    def ev_BoolOp(self, e):
        is_and = isinstance(e.op, ast.And)
        last = None
        deps = set()
        if self.cfg.all_branches:
            vals = [self.ev(x) for x in e.values]
            self._remember(vals)
            return V(("boolop", tuple(v.t for v in vals)), (), self._deps(vals))
        for x in e.values:
            v = self.ev(x)
            deps |= v.dep
            last = v
            if x is e.values[-1]:
                break
            tr = self.truth(v)
            deps |= set(self.sym(v))
            if is_and and not tr:
                return v.with_dep(deps)
            if (not is_and) and tr:
                return v.with_dep(deps)
        return last.with_dep(deps)

    def sym(self, v):
        from .values import vsymbols
        return vsymbols(v)

    def ev_UnaryOp(self, e):
        v = self.ev(e.operand)
        if isinstance(e.op, ast.Not):
            if is_const(v):
                return const(not v.t[1]).with_dep(v.dep)
            try:
                tr = self.truth_nofork(v)
            except Need:
                return V(("not", v.t), [py("bool")], v.dep)
            return const(not tr).with_dep(v.dep | frozenset(self.sym(v)))
        if isinstance(e.op, ast.USub):
            if is_const(v) and isinstance(v.t[1], (int, float)):
                return const(-v.t[1]).with_dep(v.dep)
            return V(("neg", v.t), v.ty, v.dep)
        if isinstance(e.op, ast.UAdd):
            return v
        return V(("inv", v.t), v.ty, v.dep)

    def truth_nofork(self, v):
        """truth if already decidable without a new decision, else Need"""
        return self.truth(v)

    def ev_BinOp(self, e):
        a = self.ev(e.left)
        b = self.ev(e.right)
        op = BINOPS[type(e.op)]
        return self.binop(op, a, b, e)

    def binop(self, op, a, b, node=None):
        dep = a.dep | b.dep
        if is_const(a) and is_const(b):
            try:
                x, y = a.t[1], b.t[1]
                r = {"+": lambda: x + y, "-": lambda: x - y, "*": lambda: x * y, "/": lambda: x / y,
                     "//": lambda: x // y, "%": lambda: x % y, "**": lambda: x ** y, "|": lambda: x | y,
                     "&": lambda: x & y}[op]()
                return const(r).with_dep(dep)
            except Exception:
                pass
        if op == "+" and a.t[0] in ("tuple", "list") and b.t[0] == a.t[0]:
            return V((a.t[0], a.t[1] + b.t[1]), a.ty, dep)
        if op == "*" and a.t[0] in ("tuple", "list") and is_const(b) and isinstance(b.t[1], int) and 0 <= b.t[1] < 16:
            return V((a.t[0], a.t[1] * b.t[1]), a.ty, dep)
        if op == "%" and is_const(a) and isinstance(a.t[1], str):
            return V(("fmt", (a.t, b.t)), [py("str")], dep)
        self._remember([a, b])
        ty = ()
        for v in (a, b):
            if any(t[0] == "py" and t[1] in ("ndarray", "float", "int", "list", "tuple", "str") for t in v.ty):
                ty = v.ty
                break
        return V(("bin", op, a.t, b.t), ty, dep)

    def ev_Compare(self, e):
        left = self.ev(e.left)
        result = None
        deps = set(left.dep)
        for opn, rn in zip(e.ops, e.comparators):
            op = CMPOPS[type(opn)]
            right = self.ev(rn)
            deps |= right.dep
            if op in ("in", "not in"):
                r = self.contains_value(left, right, rn)
                if op == "not in":
                    r = self.negate(r)
            else:
                r = self.cmp_value(op, left, right)
            if len(e.ops) == 1:
                return r.with_dep(deps)
            # chained comparison: a < b < c
            tr = self.truth(r)
            deps |= set(self.sym(r))
            if not tr:
                return FALSE.with_dep(deps)
            result = r
            left = right
        return TRUE.with_dep(deps)

    def negate(self, v):
        if is_const(v):
            return const(not v.t[1]).with_dep(v.dep)
        if v.t[0] == "not":
            return V(v.t[1], [py("bool")], v.dep)
        return V(("not", v.t), [py("bool")], v.dep)

    def cmp_value(self, op, a, b):
        self._remember([a, b])
        v = V(("cmp", op, a.t, b.t), [py("bool")], a.dep | b.dep)
        # fold if decidable from constants alone
        if self._foldable(a) and self._foldable(b):
            try:
                return const(self.compare(op, a, b)).with_dep(v.dep)
            except Need:
                pass
        return v

    def _foldable(self, v):
        return self._constlike(v.t)

    def contains_value(self, item, cont, node):
        """`item in cont`"""
        for t in self.ty(cont):
            if t[0] == "obj":
                f = self.M.lookup(self.M.classes[t[1]], "__contains__") if t[1] in self.M.classes else None
                if f is not None:
                    if self.is_layer(t[1]):
                        return self.layer_call(cont, t[1], f, [item], {}, node)
                    return self.call_method(f, cont, [item], {}, node, t[1])
            if t[0] == "h5":
                return self.raw_op(cont, t[1], "__contains__", [item], {}, node)
        if cont.t[0] in ("tuple", "list", "set") or (is_const(cont) and is_const(item)):
            try:
                return const(self.contains(item, cont)).with_dep(item.dep | cont.dep)
            except Need:
                pass
        self._remember([item, cont])
        return V(("cmp", "in", item.t, cont.t), [py("bool")], item.dep | cont.dep)

    def ev_IfExp(self, e):
        c = self.ev(e.test)
        if self.cfg.all_branches:
            a = self.ev(e.body)
            b = self.ev(e.orelse)
            return V(a.t, a.ty | b.ty, a.dep | b.dep | c.dep)
        tr = self.truth(c)
        fr = self.frames[-1]
        fr.ctrl.append((c, tr))
        try:
            v = self.ev(e.body if tr else e.orelse)
        finally:
            fr.ctrl.pop()
        return v.with_dep(c.dep | frozenset(self.sym(c)))

    # ---------------------------------------------------------------- comprehensions
    def ev_ListComp(self, e):
        return self._comp(e, "list", e.elt)

    def ev_SetComp(self, e):
        return self._comp(e, "set", e.elt)

    def ev_GeneratorExp(self, e):
        return self._comp(e, "gen", e.elt)

    def ev_DictComp(self, e):
        return self._comp(e, "dict", ast.Tuple(elts=[e.key, e.value], ctx=ast.Load()))

    def _comp_unrolled(self, e, kind, elt):
        """comprehension over one iterable, unrolled like a for loop (cfg.unroll elements, `iter` decisions): the result is a
        list of known length whose elements were each evaluated on their own -- needed when the element expression branches
        (an inlined callee) and a rule evaluates the outcome per element"""
        fr = self.frames[-1]
        saved = dict(fr.env)
        g = e.generators[0]
        it0 = self.ev(g.iter)
        it = self.iterate_value(it0, g.iter)
        site = self.here(e)
        loopid = (site, self.fresh(e))
        known = None
        if it.t[0] in ("tuple", "list", "set", "gen") and not any(x[0] == "star" for x in it.t[1]):
            known = len(it.t[1])
        out = []
        k = 0
        try:
            while True:
                if known is not None:
                    if k >= known:
                        break
                else:
                    if k >= self.cfg.unroll:
                        break
                    if not self.decide(("iter", loopid, k)):
                        break
                el = self.iter_elem(it, k, g.iter)
                self.bind_target(g.target, el)
                fr.loop.append(("for", site, k))
                try:
                    keep = True
                    for c in g.ifs:
                        if not self.truth(self.ev(c)):
                            keep = False
                            break
                    if keep:
                        out.append(self.ev(elt))
                finally:
                    fr.loop.pop()
                k += 1
        finally:
            fr.env = saved
        self._remember(out + [it0])
        tys = set()
        for v in out:
            tys |= set(v.ty)
        return V(("list", tuple(v.t for v in out)), [py("list")] + [("elemty", t) for t in tys], self._deps(out + [it0]))

    def _comp(self, e, kind, elt):
        if getattr(self.cfg, "unroll_comps", False) and kind in ("list", "gen") and len(e.generators) == 1:
            return self._comp_unrolled(e, kind, elt)
        if kind in ("list", "gen") and len(e.generators) == 1 and isinstance(e.generators[0].iter, ast.Name):
            # a comprehension over a table of known length (a module-level tuple of rules): every row is evaluated
            try:
                probe = self.ev(e.generators[0].iter)
            except AnalysisError:
                probe = None
            if probe is not None and probe.t[0] in ("tuple", "list") and 0 < len(probe.t[1]) <= 12 and \
                    not any(x and x[0] == "star" for x in probe.t[1]) and \
                    not any(x and x[0] in ("param", "self", "rd", "lres", "elem", "attr", "call", "mcall") for x in _subterms(probe.t)):
                return self._comp_unrolled(e, kind, elt)
        fr = self.frames[-1]
        saved = dict(fr.env)
        iters = []
        conds = []
        fr.loop.append(("comp", getattr(e, "lineno", 0)))
        try:
            for g in e.generators:
                it = self.ev(g.iter)
                iters.append(it)
                el = self.iter_elem(it, 0, g.iter)
                self.bind_target(g.target, el)
                for c in g.ifs:
                    conds.append(self.ev(c))
            v = self.ev(elt)
        finally:
            fr.loop.pop()
            fr.env = saved
        self._remember(iters + conds + [v])
        ety = v.ty
        return V(("comp", kind, v.t, tuple(i.t for i in iters), tuple(c.t for c in conds)),
                 [py("list" if kind != "dict" else "dict")] + [("elemty", t) for t in ety],
                 self._deps(iters + conds + [v]))


def BUILTIN_EXC_NAMES():
    from .px_core import BUILTIN_EXC_BASES
    return BUILTIN_EXC_BASES
