# -*- coding: utf-8 -*-
"""
Summaries of the hdf5 layer (H5Group / H5DataSet), computed from its source in 'raw' mode:
which raw h5py effects each member may have and which exception classes it raises explicitly.
Entity-level analyses ('layer' mode) use these instead of inlining the layer.
"""
from .px import Config, explore
from .px_core import Budget
from .model import AnalysisError
from . import tables as T

_CACHE = {}


def member_name(f):
    return f.cls.name + "." + f.name + {"fn": "", "get": "", "set": "@set", "del": "@del"}[f.kind]


def summaries(M):
    if M.digest in _CACHE:
        return _CACHE[M.digest]
    cfg = Config(M, mode="raw")
    eff, rais, npaths = {}, {}, {}
    for cn in T.LAYER_CLASSES:
        c = M.classes.get(cn)
        if c is None:
            raise AnalysisError("hdf5 layer class %s not found" % cn)
        for tb in ("methods", "getters", "setters", "deleters"):
            for name, f in getattr(c, tb).items():
                op = member_name(f)
                try:
                    ps = explore(cfg, f, cn, max_paths=4000)
                except Budget:
                    raise AnalysisError("hdf5 layer member %s has too many abstract paths" % op)
                e, r = set(), set()
                for p in ps:
                    for ev in p.events:
                        if ev.kind == "raw":
                            e.add(ev.kw["__effect__"].t[1])
                    if p.terminal[0] == "raise":
                        r.add(p.terminal[1].cls)
                eff[op] = e - {"R", "N"}
                rais[op] = r
                npaths[op] = len(ps)
    out = {"effects": eff, "raises": rais, "npaths": npaths}
    _CACHE[M.digest] = out
    return out


def layer_config(M, **kw):
    """a 'layer' mode configuration with the layer's raise summary installed"""
    s = summaries(M)
    cfg = Config(M, mode="layer", **kw)
    cfg.layer_raises = {op: set(r) for op, r in s["raises"].items()}
    cfg.layer_effects = s["effects"]
    return cfg
