# -*- coding: utf-8 -*-
"""CLI:  python -m nixsa.main <PROPERTY> [--tier quick|thorough] [--replay PATH]"""
import sys
import os
import json
import importlib
import traceback
import argparse


def main(argv=None):
    ap = argparse.ArgumentParser()
    ap.add_argument("prop")
    ap.add_argument("--tier", default=os.environ.get("VERIF_TIER", "quick"))
    ap.add_argument("--replay", default=None)
    a = ap.parse_args(argv)
    prop = a.prop.upper()
    tier = a.tier if a.tier in ("quick", "thorough") else "quick"
    try:
        seed = int(os.environ.get("VERIF_SEED", "0"))
    except ValueError:
        seed = 0
    from .model import Model, AnalysisError
    from .px_core import Budget
    # the rule part of a check is bounded in time (a change that makes a thousand members "writers" can blow up the path
    # exploration): better an explicit analysis failure than a check that never comes back
    import signal
    limit = int(os.environ.get("NIXSA_TIME_LIMIT", "1200"))

    def _timeout(signum, frame):
        print("ANALYSIS-ERROR property=%s the rules did not finish within %d s on this tree (path explosion); no verdict" % (prop, limit))
        sys.stdout.flush()
        os._exit(2)
    if limit > 0 and hasattr(signal, "SIGALRM"):
        signal.signal(signal.SIGALRM, _timeout)
        signal.alarm(limit)
    from .report import Reporter
    try:
        mod = importlib.import_module("rules." + prop.lower())
    except ImportError as e:
        print("ANALYSIS-ERROR no rules for property %s (%s)" % (prop, e))
        return 2
    try:
        M = Model()
        rep = Reporter(prop, tier, seed)
        rep.stats.update(M.stats())
        rep.stats["source_digest"] = M.digest
        if a.replay:
            with open(a.replay) as fh:
                r = json.load(fh)
            print("replaying rule %s instance %s" % (r.get("rule"), r.get("key")))
            only = r.get("rule")
        else:
            only = None
        mod.run(M, rep, tier, only)
        if hasattr(signal, "SIGALRM"):
            signal.alarm(0)
        if tier == "thorough" and not a.replay and not os.environ.get("NIXSA_EVIDENCE_DIR"):
            from . import selfcheck
            selfcheck.run(prop, mod, rep)
        return rep.finish()
    except (AnalysisError, Budget) as e:
        print("ANALYSIS-ERROR property=%s %s" % (prop, e))
        try:
            # a violation established before the analyser gave up is still a violation
            if any(r["violations"] for r in rep.rules.values()):
                rc = rep.finish(partial=True)
                return 1 if rc == 1 else 2
        except Exception:
            pass
        return 2
    except Exception:
        traceback.print_exc()
        print("ANALYSIS-ERROR property=%s internal error of the analyser" % prop)
        return 2


if __name__ == "__main__":
    sys.exit(main())
