# -*- coding: utf-8 -*-
"""CLI:  python -m nixsa.main <PROPERTY> [--tier quick|thorough] [--replay PATH]"""
import sys
import os
import json
import importlib
import traceback
import argparse


def main(argv=None):
    ap = argparse.ArgumentParser()
    ap.add_argument("prop")
    ap.add_argument("--tier", default=os.environ.get("VERIF_TIER", "quick"))
    ap.add_argument("--replay", default=None)
    a = ap.parse_args(argv)
    prop = a.prop.upper()
    tier = a.tier if a.tier in ("quick", "thorough") else "quick"
    try:
        seed = int(os.environ.get("VERIF_SEED", "0"))
    except ValueError:
        seed = 0
    from .model import Model, AnalysisError
    from .px_core import Budget
    from .report import Reporter
    try:
        mod = importlib.import_module("rules." + prop.lower())
    except ImportError as e:
        print("ANALYSIS-ERROR no rules for property %s (%s)" % (prop, e))
        return 2
    try:
        M = Model()
        rep = Reporter(prop, tier, seed)
        rep.stats.update(M.stats())
        rep.stats["source_digest"] = M.digest
        if a.replay:
            with open(a.replay) as fh:
                r = json.load(fh)
            print("replaying rule %s instance %s" % (r.get("rule"), r.get("key")))
            only = r.get("rule")
        else:
            only = None
        mod.run(M, rep, tier, only)
        if tier == "thorough" and not a.replay and not os.environ.get("NIXSA_EVIDENCE_DIR"):
            from . import selfcheck
            selfcheck.run(prop, mod, rep)
        return rep.finish()
    except (AnalysisError, Budget) as e:
        print("ANALYSIS-ERROR property=%s %s" % (prop, e))
        return 2
    except Exception:
        traceback.print_exc()
        print("ANALYSIS-ERROR property=%s internal error of the analyser" % prop)
        return 2


if __name__ == "__main__":
    sys.exit(main())
