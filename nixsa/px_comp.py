# -*- coding: utf-8 -*-
"""
PX composition: a call to a repo function is explored as a nested entry point starting from the
caller's abstract state; its internal paths are merged by *outcome* (events, terminal, state
delta) and the caller forks only over the distinct outcomes. This replaces the product of the
callee-internal decisions by their sum.
"""
from .values import V, NONE, show
from .px_core import Need, Budget, Explorer, Frame, Path, _Return, _Raise, ExcInfo, Event
from .model import AnalysisError


class Outcome:
    __slots__ = ("rep", "n", "implied", "sig")

    def __init__(self, rep, sig):
        self.rep = rep          # representative nested Path (with .interp)
        self.n = 1
        self.implied = None     # decisions shared by all member paths
        self.sig = sig


def event_sig(e):
    eff = e.kw.get("__effect__") if e.kw else None
    return (e.kind, e.op, e.recv.t if e.recv is not None else None, e.key.t if e.key is not None else None,
            e.site, eff.t if eff is not None else None, tuple(a.t for a in e.args))


class CompMixin:

    def snapshot(self):
        return {
            "facts": dict(self.facts), "valof": dict(self.valof),
            "notvals": {k: set(v) for k, v in self.notvals.items()}, "refined": dict(self.refined),
            "heap": dict(self.heap), "store": dict(self.store), "termty": self.termty, "bound": self.bound,
            "closures": self.closures, "caught": self.caught, "uids": dict(self.uids),
        }

    def load_snapshot(self, s):
        self.facts = dict(s["facts"])
        self.valof = dict(s["valof"])
        self.notvals = {k: set(v) for k, v in s["notvals"].items()}
        self.refined = dict(s["refined"])
        self.heap = dict(s["heap"])
        self.store = dict(s["store"])
        self.termty = dict(s["termty"])
        self.bound = dict(s["bound"])
        self.closures = dict(s["closures"])
        self.caught = dict(s["caught"])
        self.uids = dict(s["uids"])

    def state_key(self):
        return (frozenset(self.facts.items()),
                frozenset((k, v.t) for k, v in self.store.items()),
                frozenset((k, v.t) for k, v in self.heap.items()))

    def can_compose(self, f, closure):
        if not self.cfg.compose or closure is not None:
            return False
        if not self.frames or self.frames[-1].func is None:
            return False
        if self.closures:
            return False
        if getattr(f, "nested", None):
            return False
        return True

    def call_composed(self, f, env, selfv, node, clsctx):
        cfg = self.cfg
        catch = tuple(sorted(set(self.outer_catch) | {c for fr in self.frames for cs in fr.try_catch for c in cs}))
        key = (f.qual, tuple(sorted((k, v.t) for k, v in env.items())), selfv.t if selfv is not None else None,
               catch, self.state_key())
        outcomes = cfg.comp_cache.get(key)
        if outcomes is None:
            base = self.snapshot()
            cls = type(self)

            def factory(decisions):
                sub = cls(cfg, [], f, None, None)
                sub.load_snapshot(base)
                sub.outer_catch = catch
                sub.decisions = list(decisions)
                sub.pending = dict(decisions)
                sub.sub_env = dict(env)
                sub.sub_self = selfv
                sub.sub_clsctx = clsctx
                return sub
            paths, runs = Explorer(factory, cfg.comp_max_paths).run()
            cfg.comp_stats["nested_runs"] = cfg.comp_stats.get("nested_runs", 0) + runs
            outcomes = self.group_outcomes(paths, base)
            cfg.comp_cache[key] = outcomes
        else:
            cfg.comp_stats["hits"] = cfg.comp_stats.get("hits", 0) + 1
        if len(outcomes) == 1:
            k = 0
        else:
            k = self.decide(("outcome", f.qual, self.here(node), self.fresh(node)), tuple(range(len(outcomes))))
        return self.adopt(outcomes[k], f, node)

    def group_outcomes(self, paths, base):
        groups = {}
        order = []
        for p in paths:
            it = p.interp
            if p.terminal[0] == "return":
                term = ("return", p.terminal[1].t)
            else:
                x = p.terminal[1]
                term = ("raise", x.cls, x.site)
            sd = frozenset((k, v.t) for k, v in it.store.items() if base["store"].get(k) is not v)
            hd = frozenset((k, v.t) for k, v in it.heap.items() if base["heap"].get(k) is not v)
            ys = tuple(y.t for y in (p.yields or ()))
            sig = (term, tuple(event_sig(e) for e in p.events), sd, hd, ys)
            g = groups.get(sig)
            if g is None:
                g = Outcome(p, sig)
                g.implied = dict(p.decisions)
                groups[sig] = g
                order.append(g)
            else:
                g.n += 1
                d = dict(p.decisions)
                g.implied = {a: v for a, v in g.implied.items() if d.get(a, _MISSING) == v}
        return order

    def adopt(self, oc, f, node):
        rep = oc.rep
        it = rep.interp
        fr = self.frames[-1]
        stack = tuple(x.func.qual for x in self.frames if x.func is not None)
        ctrl = tuple(c for x in self.frames for c in x.ctrl)
        loop = tuple(x for y in self.frames for x in y.loop)
        handler = any(x.in_handler for x in self.frames)
        for e in rep.events:
            ne = Event(e.kind, e.op, e.recv, e.key, e.args, e.kw, e.site, e.func, stack + e.stack, ctrl + e.ctrl,
                       loop + e.loop, handler or e.handler)
            ne.idx = len(self.events)
            self.events.append(ne)
        self.heap = dict(it.heap)
        self.store = dict(it.store)
        self.termty.update(it.termty)
        self.bound.update(it.bound)
        self.closures.update(it.closures)
        self.caught.update(it.caught)
        self.uids = dict(it.uids)
        for a, v in oc.implied.items():
            if a not in self.facts:
                self.facts[a] = v
                self._apply_fact(a, v)
        for t, ty in it.refined.items():
            # type refinements that hold on every member path are implied by ('isinst', ...) facts above
            pass
        self.notes.append(("outcome", f.qual, self.here(node), oc.n, tuple(rep.decisions)))
        if rep.terminal[0] == "return":
            v = rep.terminal[1]
            if f.is_generator():
                ys = rep.yields or []
                ety = set()
                for y in ys:
                    ety |= {("elemty", t) for t in y.ty}
                dep = set()
                for y in ys:
                    dep |= y.dep
                return V(("gen", tuple(y.t for y in ys)), [("py", "gen")] + list(ety), dep)
            return v
        x = rep.terminal[1]
        info = ExcInfo(x.cls, x.site, x.func, frozenset(x.ctrl) | self.ctrl_symbols(), x.explicit, x.value,
                       stack + tuple(x.stack))
        info.ctrl_conds = ctrl + tuple(getattr(x, "ctrl_conds", ()))
        info.nevents = len(self.events)
        raise _Raise(info)

    # nested entry point execution (used by the factory above)
    def execute_sub(self):
        f = self.func
        fr = Frame(f, self.sub_env, self.sub_self, self.sub_clsctx, f.module)
        fr.yields = []
        self.frames.append(fr)
        try:
            try:
                self.exec_block(f.node.body)
                term = ("return", NONE)
            except _Return as r:
                term = ("return", r.v)
            except _Raise as r:
                term = ("raise", r.exc)
        finally:
            self.frames.pop()
        p = Path(list(self.decisions), self.events, term, self.notes)
        p.yields = fr.yields
        p.interp = self
        return p


_MISSING = object()
