# -*- coding: utf-8 -*-
"""
PX composition: a call to a repo function is explored as a nested entry point starting from the
caller's abstract state; its internal paths are merged by *outcome* (events, terminal, state
delta) and the caller forks only over the distinct outcomes. This replaces the product of the
callee-internal decisions by their sum.
"""
from .values import V, NONE, show, vsymbols
from .px_core import Need, Budget, Explorer, Frame, Path, _Return, _Raise, ExcInfo, Event
from .model import AnalysisError


def raise_taint(x):
    """parameters the innermost controlling condition of a raise depends on"""
    for c, _ in reversed(getattr(x, "ctrl_conds", ())):
        if c.t and c.t[0] in ("iter", "handler"):
            continue
        return frozenset(s[1] for s in vsymbols(c) if s[0] == "param")
    return frozenset()


class Outcome:
    __slots__ = ("rep", "n", "implied", "sig")

    def __init__(self, rep, sig):
        self.rep = rep          # representative nested Path (with .interp)
        self.n = 1
        self.implied = None     # decisions shared by all member paths
        self.sig = sig


def event_sig(e):
    eff = e.kw.get("__effect__") if e.kw else None
    return (e.kind, e.op, e.recv.t if e.recv is not None else None, e.key.t if e.key is not None else None,
            e.site, eff.t if eff is not None else None, tuple(a.t for a in e.args))



class TrackDict(dict):
    """dict that logs reads of keys it did not write itself (dependencies on the caller's state)"""
    __slots__ = ("log", "own", "gone", "whole")

    def __init__(self, base, log):
        dict.__init__(self, base)
        self.log = log
        self.own = set()
        self.gone = set()
        self.whole = False

    def _r(self, k):
        if k not in self.own and k not in self.gone and k not in self.log:
            self.log[k] = dict.get(self, k, _MISSING)

    def __getitem__(self, k):
        self._r(k)
        return dict.__getitem__(self, k)

    def get(self, k, d=None):
        self._r(k)
        return dict.get(self, k, d)

    def __contains__(self, k):
        self._r(k)
        return dict.__contains__(self, k)

    def __setitem__(self, k, v):
        if k not in self.own and k not in self.gone and k not in self.log:
            self.log[k] = dict.get(self, k, _MISSING)
        self.own.add(k)
        self.gone.discard(k)
        dict.__setitem__(self, k, v)

    def setdefault(self, k, d=None):
        if dict.__contains__(self, k):
            return self[k]
        self[k] = d
        return d

    def pop(self, k, *d):
        self._r(k)
        if dict.__contains__(self, k):
            self.gone.add(k)
            self.own.discard(k)
        return dict.pop(self, k, *d)

    def __delitem__(self, k):
        self._r(k)
        self.gone.add(k)
        self.own.discard(k)
        dict.__delitem__(self, k)

    def __iter__(self):
        self.whole = True
        return dict.__iter__(self)

    def items(self):
        self.whole = True
        return dict.items(self)

    def keys(self):
        self.whole = True
        return dict.keys(self)

    def update(self, other):
        for k, v in other.items():
            self[k] = v


STATE = ("facts", "valof", "notvals", "refined", "heap", "store", "uids")


def same(a, b):
    if a is b:
        return True
    if a is _MISSING or b is _MISSING:
        return False
    ta = getattr(a, "t", a)
    tb = getattr(b, "t", b)
    return ta == tb


class CompMixin:

    def can_compose(self, f, closure):
        if not self.cfg.compose or closure is not None:
            return False
        if not self.frames or self.frames[-1].func is None:
            return False
        if self.closures:
            return False
        if getattr(f, "nested", None):
            return False
        return True

    def call_composed(self, f, env, selfv, node, clsctx):
        cfg = self.cfg
        catch = tuple(sorted(set(self.outer_catch) | {c for fr in self.frames for cs in fr.try_catch for c in cs}))
        # the classes of the receiver and of the arguments are part of the calling state: `self[item]` inside a method
        # inherited by several container classes dispatches on them
        tys = lambda v: tuple(sorted(repr(t) for t in (v.ty or ())))
        key = (f.qual, tuple(sorted((k, v.t, tys(v)) for k, v in env.items())),
               (selfv.t, tys(selfv)) if selfv is not None else None, clsctx if isinstance(clsctx, str) else getattr(clsctx, "name", None), catch)
        entries = cfg.comp_cache.setdefault(key, [])
        outcomes = None
        for deps, oc in entries:
            ok = True
            for name, d in deps.items():
                cur = getattr(self, name)
                for k, v in d.items():
                    if not same(dict.get(cur, k, _MISSING), v):
                        ok = False
                        break
                if not ok:
                    break
            if ok:
                outcomes = oc
                cfg.comp_stats["hits"] = cfg.comp_stats.get("hits", 0) + 1
                self.propagate_deps(deps)
                break
        if outcomes is None:
            logs = {name: {} for name in STATE}
            base = {name: dict.copy(getattr(self, name)) for name in STATE}
            shared = {"termty": self.termty, "bound": self.bound, "closures": self.closures, "caught": self.caught}
            cls = type(self)
            subs = []

            def factory(decisions):
                sub = cls(cfg, [], f, None, None)
                for name in STATE:
                    setattr(sub, name, TrackDict(base[name], logs[name]))
                sub.termty = dict(shared["termty"])
                sub.bound = dict(shared["bound"])
                sub.closures = dict(shared["closures"])
                sub.caught = dict(shared["caught"])
                sub.partials = self.partials        # partial / methodcaller / namedtuple tables are append-only: shared
                sub.ntfields = self.ntfields
                sub.outer_catch = catch
                sub.decisions = list(decisions)
                sub.pending = dict(decisions)
                sub.sub_env = dict(env)
                sub.sub_self = selfv
                sub.sub_clsctx = clsctx
                subs.append(sub)
                return sub
            paths, runs = Explorer(factory, cfg.comp_max_paths).run()
            cfg.comp_stats["nested_runs"] = cfg.comp_stats.get("nested_runs", 0) + runs
            outcomes = self.group_outcomes(paths, f)
            self.propagate_deps(logs)
            whole = any(getattr(sub, name).whole for sub in subs for name in STATE)
            if whole:
                for name in STATE:
                    cur = getattr(self, name)
                    if isinstance(cur, TrackDict):
                        cur.whole = True
            if not whole:
                entries.append((logs, outcomes))
                if len(entries) > 64:
                    del entries[0]
        if len(outcomes) == 1:
            k = 0
        else:
            k = self.decide(("outcome", f.qual, self.here(node), self.fresh(node)), tuple(range(len(outcomes))))
        return self.adopt(outcomes[k], f, node)

    def propagate_deps(self, deps):
        """what a nested exploration read from my state, I have read too (transitive dependencies)"""
        for name, d in deps.items():
            cur = getattr(self, name)
            if isinstance(cur, TrackDict):
                for k in d:
                    cur._r(k)

    def group_outcomes(self, paths, f=None):
        coarse = f is not None and self.cfg.coarse is not None and self.cfg.coarse(f)
        groups = {}
        order = []
        for p in paths:
            it = p.interp
            if p.terminal[0] == "return":
                term = ("return", p.terminal[1].t)
            else:
                x = p.terminal[1]
                term = ("raise", x.cls, x.site)
                taint = raise_taint(x)
            delta = {}
            dsig = []
            for name in ("heap", "store", "uids", "valof", "notvals", "refined"):
                d = getattr(it, name)
                ch = {k: dict.__getitem__(d, k) for k in d.own}
                delta[name] = (ch, set(d.gone))
                if name in ("heap", "store"):
                    dsig.append(frozenset((k, getattr(v, "t", v)) for k, v in ch.items()))
                    dsig.append(frozenset(d.gone))
            p.delta = delta
            ys = tuple(y.t for y in (p.yields or ()))
            if coarse:
                evs = frozenset((e.op, e.key.t if e.key is not None else None) for e in p.events if self.cfg.sig_keep(e))
                if term[0] == "raise":
                    term = ("raise", term[1])
                dsig = [frozenset(k for k, _ in x) if i % 2 == 0 else x for i, x in enumerate(dsig)]
            elif self.cfg.sig_mode == "writes":
                evs = tuple((e.kind, e.op, e.recv.t if e.recv is not None else None,
                             e.key.t if e.key is not None else None, e.site)
                            for e in p.events if self.cfg.sig_keep(e))
            else:
                evs = tuple(event_sig(e) for e in p.events)
            if term[0] == "raise":
                # refusals that depend on different arguments (or on none) are different outcomes: the representative of a
                # merged group would otherwise decide by accident whether the caller sees an argument refusal
                term = term + (taint,)
            sig = (term, evs, tuple(dsig), ys)
            newfacts = {a: dict.__getitem__(it.facts, a) for a in it.facts.own}
            g = groups.get(sig)
            if g is None:
                g = Outcome(p, sig)
                g.implied = newfacts
                groups[sig] = g
                order.append(g)
            else:
                g.n += 1
                g.implied = {a: v for a, v in g.implied.items() if newfacts.get(a, _MISSING) == v}
        for g in order:
            # facts that hold on every member path and are implied by the outcome
            pass
        return order

    def adopt(self, oc, f, node):
        rep = oc.rep
        it = rep.interp
        stack = tuple(x.func.qual for x in self.frames if x.func is not None)
        ctrl = tuple(c for x in self.frames for c in x.ctrl)
        loop = tuple(x for y in self.frames for x in y.loop)
        handler = any(x.in_handler for x in self.frames)
        for e in rep.events:
            ne = Event(e.kind, e.op, e.recv, e.key, e.args, e.kw, e.site, e.func, stack + e.stack, ctrl + e.ctrl,
                       loop + e.loop, handler or e.handler)
            ne.idx = len(self.events)
            self.events.append(ne)
        for name in ("heap", "store", "uids"):
            ch, gone = rep.delta[name]
            cur = getattr(self, name)
            for k in gone:
                cur.pop(k, None)
            for k, v in ch.items():
                cur[k] = v
        self.termty.update(it.termty)
        self.bound.update(it.bound)
        self.closures.update(it.closures)
        self.caught.update(it.caught)
        for a, v in oc.implied.items():
            if a not in self.facts:
                self.facts[a] = v
                self._apply_fact(a, v)
        self.notes.append(("outcome", f.qual, self.here(node), oc.n, tuple(rep.decisions), tuple(rep.notes)))
        if rep.terminal[0] == "return":
            v = rep.terminal[1]
            if f.is_generator():
                ys = rep.yields or []
                ety = set()
                dep = set()
                for y in ys:
                    ety |= {("elemty", t) for t in y.ty}
                    dep |= y.dep
                return V(("gen", tuple(y.t for y in ys)), [("py", "gen")] + list(ety), dep)
            return v
        x = rep.terminal[1]
        info = ExcInfo(x.cls, x.site, x.func, frozenset(x.ctrl) | self.ctrl_symbols(), x.explicit, x.value,
                       stack + tuple(x.stack))
        info.ctrl_conds = ctrl + tuple(getattr(x, "ctrl_conds", ()))
        info.nevents = len(self.events)
        raise _Raise(info)

    # nested entry point execution (used by the factory above)
    def execute_sub(self):
        f = self.func
        fr = Frame(f, self.sub_env, self.sub_self, self.sub_clsctx, f.module)
        fr.yields = []
        self.frames.append(fr)
        try:
            try:
                self.exec_block(f.node.body)
                term = ("return", NONE)
            except _Return as r:
                term = ("return", r.v)
            except _Raise as r:
                term = ("raise", r.exc)
        finally:
            self.frames.pop()
        p = Path(list(self.decisions), self.events, term, self.notes)
        p.yields = fr.yields
        p.interp = self
        return p


_MISSING = object()
