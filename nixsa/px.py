# -*- coding: utf-8 -*-
"""
PX -- the abstract interpreter (one instance = one abstract path attempt).
See px_core for the exploration driver. Pieces: decisions/truth (here), expressions
(px_expr), calls and storage events (px_call), statements (px_stmt).
"""
import ast
from .values import V, const, NONE, TRUE, FALSE, is_const, show, symbols, vsymbols, obj, clsobj, h5, py
from .model import AnalysisError, Func, ClassInfo, loc
from .px_core import (Need, Budget, _Return, _Raise, _Break, _Continue, ExcInfo, Event, Frame, Path,
                      BUILTIN_EXC_BASES, Explorer)
from . import tables as T


class Config:
    def __init__(self, model, mode="layer", opaque=None, max_depth=14, unroll=1, max_steps=200000,
                 inline_layer=(), model_layer_raises=True, track_presence=True):
        self.model = model
        self.mode = mode                      # 'layer': H5Group/H5DataSet members are storage events
        self.opaque = dict(T.OPAQUE_DEFAULT)
        if opaque:
            self.opaque.update(opaque)
        self.max_depth = max_depth
        self.force = None
        self.loop_marks = False
        self.unroll = unroll
        self.max_steps = max_steps
        self.inline_layer = set(inline_layer)
        self.model_layer_raises = model_layer_raises
        self.track_presence = track_presence
        self.layer_raises = {}                # filled by summaries: 'H5Group.get_dataset' -> {'KeyError'}
        self.opaque_modules = {"nixio.util.units"}
        self.compose = True
        self.no_inline = False
        self.all_branches = False
        self.coarse = None
        self.sig_mode = "full"
        self.sig_keep = lambda e: e.kind in ("layer", "raw") and not e.op.split(".")[-1] in READ_MEMBERS
        self.comp_cache = {}
        self.comp_stats = {}
        self.comp_max_paths = 20000
        self._raises = {}

    def raises_of(self, f):
        """explicit raise classes of an opaque (not inlined) function: syntactic, transitive within its module"""
        if f.qual in self._raises:
            return self._raises[f.qual]
        out = set()
        seen = set()
        todo = [f]
        while todo:
            g = todo.pop()
            if g.qual in seen:
                continue
            seen.add(g.qual)
            for n in ast.walk(g.node):
                if isinstance(n, ast.Raise) and n.exc is not None:
                    x = n.exc.func if isinstance(n.exc, ast.Call) else n.exc
                    if isinstance(x, ast.Name):
                        out.add(x.id)
                    elif isinstance(x, ast.Attribute):
                        out.add(x.attr)
                elif isinstance(n, ast.Call) and isinstance(n.func, ast.Name) and n.func.id in g.module.funcs:
                    todo.append(g.module.funcs[n.func.id])
        self._raises[f.qual] = out
        return out


ABSENT = V(("absent",))
READ_MEMBERS = {"get_attr", "get_data", "has_data", "__contains__", "__len__", "__iter__", "get_dataset", "get_by_name",
                "get_by_id", "get_by_id_or_name", "get_by_pos", "has_by_id", "open_group", "shape", "dtype", "group",
                "parent", "read_data", "find_children", "__getitem__", "get", "values", "keys", "items", "__init__"}


class InterpBase:
    def __init__(self, cfg, decisions):
        self.cfg = cfg
        self.M = cfg.model
        self.decisions = list(decisions)
        self.facts = {}
        self.pending = dict(decisions)
        self.used = []                        # decisions in the order they were consumed
        self._used_set = set()
        self.events = []
        self.heap = {}                        # (recv term, attr) -> V
        self.store = {}                       # (recv term, kind, key term) -> V | ABSENT | PRESENT
        self.refined = {}                     # term -> frozenset(type tags)
        self.valof = {}                       # term -> const term (from decided equalities)
        self.notvals = {}                     # term -> set of const terms
        self.frames = []
        self.steps = 0
        self.uid = 0
        self.uids = {}
        self.outer_catch = ()
        self.outer_ctrl = frozenset()
        self.notes = []
        self.partials = {}
        self.ntfields = {}

    # ------------------------------------------------------------------ decisions
    def decide(self, atom, domain=(True, False)):
        if atom in self.facts:
            return self.facts[atom]
        if self.cfg.all_branches:
            v = list(domain)[0]
            if atom[0] in ("lraise", "oraise", "xraise", "rraise", "enumvalid"):
                v = False if atom[0] != "enumvalid" else True
            self.facts[atom] = v
            return v
        if atom in self.pending:
            v = self.pending.pop(atom)
            self.facts[atom] = v
            self._apply_fact(atom, v)
            return v
        if self.cfg.force is not None:
            # a rule may pin decisions it does not quantify over (e.g. "every loop runs exactly once")
            v = self.cfg.force(atom, domain)
            if v is not None:
                self.facts[atom] = v
                self._apply_fact(atom, v)
                self.decisions.append((atom, v))
                return v
        raise Need(atom, domain)

    def _apply_fact(self, atom, val):
        k = atom[0]
        if k == "eq":
            _, a, b = atom
            if val:
                self.valof[a] = b
            else:
                self.notvals[a] = frozenset(self.notvals.get(a, ())) | {b}
        elif k == "isinst" and not val and atom[2] in self.M.classes:
            cur = self.refined.get(atom[1])
            if cur is not None and len(cur) > 1 and obj(atom[2]) in cur:
                self.refined[atom[1]] = frozenset(cur) - {obj(atom[2])}
        elif k == "isinst" and val:
            _, t, cname = atom
            h5map = {"ext:h5py.Group": h5("grp"), "ext:h5py.Dataset": h5("ds"), "ext:h5py.File": h5("file")}
            if cname in h5map:
                self.refined[t] = frozenset([h5map[cname]])
            elif "|" in cname and all(n in self.M.classes for n in cname.split("|")):
                # isinstance(x, (A, B)): x is one of them; a later `isinstance(x, A)` found false leaves B
                left = [n for n in cname.split("|") if self.facts.get(("isinst", t, n)) is not False]
                if left:
                    self.refined[t] = frozenset(obj(n) for n in left)
            elif "|" in cname or cname.startswith(("ext:", "py:", "?:")):
                pass            # a union / foreign type: keep what is known about the term
            else:
                self.refined[t] = frozenset([obj(cname)])

    def fresh(self, node):
        """deterministic id for an allocation / call site on this path: n-th occurrence at this source position"""
        k = (self.frames[-1].module.relpath if self.frames else "", getattr(node, "lineno", 0),
             getattr(node, "col_offset", 0))
        n = self.uids.get(k, 0) + 1
        self.uids[k] = n
        return "%s:%d:%d#%d" % (k[0].split("/")[-1], k[1], k[2], n)

    # ------------------------------------------------------------------ typing helpers
    def ty(self, v):
        r = self.refined.get(v.t)
        if r is not None:
            return r
        return v.ty

    def obj_classes(self, v):
        return [t[1] for t in self.ty(v) if t[0] == "obj"]

    def known_nonnone(self, v):
        t = v.t
        h = t[0]
        if h == "const":
            return t[1] is not None
        if h in ("inst", "enum", "cls", "tuple", "list", "set", "dict", "fn", "closure", "lambda", "str", "bin",
                 "slice", "fmt", "comp", "gen", "given", "h5wrap", "rawres", "lres"):
            return True
        tys = self.ty(v)
        if tys and all(x[0] in ("obj", "cls", "h5", "mod") for x in tys) and h in ("lres", "self", "new"):
            return True
        if h == "self":
            return True
        if h == "call" and isinstance(t[1], str) and t[1].split(".")[-1][:1].isupper():
            return True
        if h == "call" and isinstance(t[1], str) and t[1].split(".")[0] in ("numpy", "np") and \
                t[1].split(".")[-1] in ("array", "asarray", "ascontiguousarray", "zeros", "ones", "empty", "full", "arange",
                                        "shape", "reshape", "concatenate", "dtype", "diff", "where", "round", "floor", "ceil"):
            return True         # TAB: these NumPy constructors / functions never return None
        if h == "call" and t[1] in ("str", "int", "float", "list", "tuple", "len", "dict", "set", "sorted",
                                    "np.array", "np.ascontiguousarray", "np.shape", "type", "bool", "zip",
                                    "enumerate", "range", "map", "nixio.util.util:create_id", "uuid4"):
            return True
        return False

    # ------------------------------------------------------------------ truth
    def truth(self, v):
        """decide the truthiness of value v on this path (may raise Need)"""
        t = v.t
        if self.cfg.all_branches and t[0] != "const":
            return True
        h = t[0]
        if h == "const":
            return bool(t[1])
        if h == "absent":
            return False
        if h == "not":
            return not self.truth(V(t[1], (), v.dep))
        if h in ("inst", "enum", "cls", "fn", "closure", "lambda", "mod"):
            return True
        if h in ("tuple", "list", "set"):
            return len(t[1]) > 0
        if h == "dict":
            return len(t[1]) > 0
        if h == "isnone":
            return self.is_none(V(t[1]))
        if h == "cmp":
            return self.compare(t[1], V(t[2]), V(t[3]))
        if h == "isinst":
            return self.decide(("isinst", t[1], t[2]))
        if h == "mcall" and t[1] == "format" and t[2][0] == "const" and isinstance(t[2][1], str):
            import re as _re
            if _re.sub(r"\{[^}]*\}", "", t[2][1]):
                return True         # a template with literal text never formats to the empty string
        if h == "fmt" and any(x[0] == "const" and x[1] for x in t[1]):
            return True
        if ("isnone", t) in self.facts and self.facts[("isnone", t)]:
            return False
        if t in self.valof:
            c = self.valof[t]
            if c[0] == "const":
                return bool(c[1])
            return True
        r = self.decide(("truthy", t))
        return r

    def is_none(self, v):
        t = v.t
        if t[0] == "const":
            return t[1] is None
        if t[0] == "absent":
            return True
        if self.known_nonnone(v):
            return False
        if t in self.valof:
            c = self.valof[t]
            return c == ("const", None)
        if self.facts.get(("truthy", t)) is True:
            return False
        if t in self.refined:
            return False
        return self.decide(("isnone", t))

    def eq(self, a, b):
        """a == b with value partition bookkeeping"""
        ta, tb = a.t, b.t
        if ta == tb:
            return True
        ca, cb = self._constlike(ta), self._constlike(tb)
        if ca and cb:
            if ta[0] == "const" and tb[0] == "const":
                try:
                    return ta[1] == tb[1]
                except Exception:
                    return False
            return ta == tb
        if cb and not ca:
            x, c = ta, tb
        elif ca and not cb:
            x, c = tb, ta
        else:
            key = tuple(sorted([ta, tb], key=repr))
            return self.decide(("eq",) + key)
        if c == ("const", None):
            return self.is_none(V(x))
        if x in self.valof:
            return self.valof[x] == c
        if c in self.notvals.get(x, ()):
            return False
        if c[0] == "const" and c[1] in ("", 0, False) and self.facts.get(("truthy", x)) is True:
            return False
        r = self.decide(("eq", x, c))
        return r

    def _constlike(self, t):
        if t[0] in ("const", "enum", "cls"):
            return True
        if t[0] == "tuple":
            return all(self._constlike(x) for x in t[1])
        return False

    def compare(self, op, a, b):
        if op in ("==", "is"):
            return self.eq(a, b)
        if op in ("!=", "is not"):
            return not self.eq(a, b)
        if op in ("<", "<=", ">", ">="):
            ta, tb = a.t, b.t
            if ta[0] == "const" and tb[0] == "const":
                try:
                    return {"<": ta[1] < tb[1], "<=": ta[1] <= tb[1], ">": ta[1] > tb[1], ">=": ta[1] >= tb[1]}[op]
                except Exception:
                    pass
            if ta[0] == "tuple" and tb[0] == "tuple" and all(x[0] == "const" for x in ta[1] + tb[1]):
                x = tuple(i[1] for i in ta[1])
                y = tuple(i[1] for i in tb[1])
                return {"<": x < y, "<=": x <= y, ">": x > y, ">=": x >= y}[op]
            if ta == tb:
                return op in ("<=", ">=")
            flip = repr(ta) > repr(tb)
            x, y = (tb, ta) if flip else (ta, tb)
            o = self.decide(("ord", x, y), ("<", "=", ">"))
            if flip:
                o = {"<": ">", ">": "<", "=": "="}[o]
            return {"<": o == "<", "<=": o in "<=", ">": o == ">", ">=": o in ">="}[op]
        if op in ("in", "not in"):
            r = self.contains(a, b)
            return r if op == "in" else not r
        raise AnalysisError("unsupported comparison %s" % op)

    def contains(self, a, b):
        tb = b.t
        if tb[0] in ("tuple", "list", "set"):
            for x in tb[1]:
                if self.eq(a, V(x)):
                    return True
            return False
        if tb[0] == "const" and isinstance(tb[1], str) and a.t[0] == "const" and isinstance(a.t[1], str):
            return a.t[1] in tb[1]
        return self.decide(("in", a.t, tb))


# ====================================================================== the interpreter
from .px_expr import ExprMixin
from .px_attr import AttrMixin, PRESENT
from .px_call import CallMixin
from .px_stmt import StmtMixin
from .px_comp import CompMixin


class Interp(InterpBase, ExprMixin, AttrMixin, CallMixin, StmtMixin, CompMixin):

    def __init__(self, cfg, decisions, func, recv_class=None, args=None, closure_env=None, root_self=None):
        InterpBase.__init__(self, cfg, decisions)
        self.termty = {}
        self.bound = {}
        self.closures = {}
        self.caught = {}
        self.func = func
        self.recv_class = recv_class
        self.args = args or {}
        self.closure_env = closure_env
        self.root_self = root_self

    # ------------------------------------------------------------------ root setup
    def root_env(self):
        f = self.func
        names = f.params
        env = {}
        selfv = None
        a = f.node.args
        if f.cls is not None and f.deco != "staticmethod" and names:
            cname = self.recv_class or f.cls.name
            if f.deco == "classmethod":
                selfv = V(("cls", cname), [clsobj(cname)])
            else:
                selfv = self.root_self if self.root_self is not None else V(("self",), [obj(cname)])
                if self.root_self is None:
                    self.init_prototype(selfv, cname)
            env[names[0]] = selfv
            names = names[1:]
        defaults = list(a.defaults)
        nd = len(names) - len(defaults)
        for i, nm in enumerate(names):
            if nm in self.args:
                env[nm] = self.args[nm]
                continue
            ty = []
            if nm in T.PARAM_SEEDS:
                ty = [T.PARAM_SEEDS[nm]]
            env[nm] = V(("param", nm), ty)
        for k in a.kwonlyargs:
            env[k.arg] = self.args.get(k.arg, V(("param", k.arg)))
        if a.vararg is not None:
            env[a.vararg.arg] = V(("param", a.vararg.arg), [py("tuple")])
        if a.kwarg is not None:
            env[a.kwarg.arg] = V(("param", a.kwarg.arg), [py("dict")])
        return env, selfv

    def fields_stored_later(self, c):
        """names of instance fields that a member other than the constructors assigns (self.<f> = ..., along the MRO)"""
        cache = self.cfg.__dict__.setdefault("_later_cache", {})
        got = cache.get(c.name)
        if got is None:
            got = set()
            for k in self.M.mro(c):
                for table in ("methods", "getters", "setters", "deleters"):
                    for nm, fn in getattr(k, table, {}).items():
                        if nm == "__init__" or not fn.params:
                            continue
                        sname = fn.params[0]
                        lazy = set()        # stores of the lazy-initialisation idiom: if self.f is None: self.f = ...

                        def _tested_unset(test):
                            t = test
                            if isinstance(t, ast.Compare) and len(t.ops) == 1 and isinstance(t.ops[0], (ast.Is, ast.IsNot)) and \
                                    isinstance(t.comparators[0], ast.Constant) and t.comparators[0].value is None:
                                t = t.left
                            elif isinstance(t, ast.UnaryOp) and isinstance(t.op, ast.Not):
                                t = t.operand
                            if isinstance(t, ast.Attribute) and isinstance(t.value, ast.Name) and t.value.id == sname:
                                return t.attr
                            return None
                        for x in ast.walk(fn.node):
                            if isinstance(x, ast.If):
                                fld = _tested_unset(x.test)
                                if fld is not None:
                                    # either polarity, early-return form included: every store of the field in this member
                                    for b in [fn.node]:
                                        for y in ast.walk(b):
                                            if isinstance(y, ast.Attribute) and isinstance(y.ctx, ast.Store) and y.attr == fld and \
                                                    isinstance(y.value, ast.Name) and y.value.id == sname:
                                                lazy.add(id(y))
                        for x in ast.walk(fn.node):
                            if isinstance(x, ast.Attribute) and isinstance(x.ctx, (ast.Store, ast.Del)) and \
                                    isinstance(x.value, ast.Name) and x.value.id == sname and id(x) not in lazy:
                                got.add(x.attr)
            cache[c.name] = got
        return got

    def init_prototype(self, selfv, cname):
        """abstract heap of a fresh handle: constants assigned to self.<attr> in the constructors along the MRO"""
        c = self.M.classes[cname]
        cache = self.cfg.__dict__.setdefault("_proto_cache", {})
        for k in reversed(self.M.mro(c)):
            init = k.methods.get("__init__")
            if init is None:
                continue
            assigned = cache.get(k.name)
            if assigned is None:
                sname = init.params[0]
                assigned = {}
                for n in ast.walk(init.node):
                    if isinstance(n, (ast.Assign, ast.AugAssign, ast.AnnAssign)):
                        tgs = n.targets if isinstance(n, ast.Assign) else [n.target]
                        for tg in tgs:
                            for x in ast.walk(tg):
                                if isinstance(x, ast.Attribute) and isinstance(x.value, ast.Name) and x.value.id == sname \
                                        and isinstance(x.ctx, ast.Store):
                                    assigned.setdefault(x.attr, []).append(n.value if isinstance(n, ast.Assign) and x is tg else None)
                cache[k.name] = assigned
            for attr, vals in assigned.items():
                if self.M.lookup(c, attr, "getters") is not None:
                    continue
                if attr in self.fields_stored_later(c):
                    # some other member re-assigns the field: a handle that has been used is not a fresh one
                    if (selfv.t, attr) in self.heap:
                        del self.heap[(selfv.t, attr)]
                    continue
                # a field has a known initial value only if the constructor assigns it exactly once, a constant
                if len(vals) == 1 and isinstance(vals[0], ast.Constant):
                    self.heap[(selfv.t, attr)] = const(vals[0].value)
                elif (selfv.t, attr) in self.heap:
                    del self.heap[(selfv.t, attr)]

    def execute(self):
        if getattr(self, 'sub_env', None) is not None:
            return self.execute_sub()
        f = self.func
        env, selfv = self.root_env()
        decos = self.repo_decorators(f) if self.closure_env is None else []
        fr = Frame(None if decos else f, env, selfv, f.cls or getattr(f, "owner_cls", None), f.module)
        if self.closure_env is not None:
            outer = Frame(f.outer, self.closure_env, None, None, f.module)
            outer.closure_env = None
            fr.closure_env = outer.env
            fr.closure_parent = outer
        fr.yields = []
        self.frames.append(fr)
        try:
            try:
                if decos:
                    # the entry point is wrapped by a decorator of the package: what a caller runs is the wrapper
                    fv = V(("fn", f.qual, "raw"), [("fn", f.qual)])
                    for dfn in reversed(decos):
                        fv = self.call_function(dfn, None, [fv], {}, f.node, None)
                    names = [a.arg for a in f.node.args.args]
                    if selfv is not None and names:
                        names = names[1:]
                    r_ = self.call_value(fv, ([selfv] if selfv is not None else []) + [env[n] for n in names if n in env], {}, f.node)
                    term = ("return", r_)
                else:
                    self.exec_block(f.node.body)
                    term = ("return", NONE)
            except _Return as r:
                term = ("return", r.v)
            except _Raise as r:
                term = ("raise", r.exc)
            except (_Break, _Continue):
                raise AnalysisError("break/continue escaped %s" % f.qual)
        finally:
            self.frames.pop()
        p = Path(list(self.decisions), self.events, term, self.notes)
        p.yields = fr.yields
        p.heap = self.heap
        p.store = self.store
        p.interp = self
        return p


# Frame defaults used by the mixins
Frame.closure_env = None
Frame.closure_parent = None
Frame.yields = None
Frame.nonlocals = ()
Frame.callsite = None


def explore(cfg, func, recv_class=None, args=None, max_paths=20000, closure_env=None, root_self=None):
    """all abstract paths of `func` (a model.Func) analysed as an entry point"""
    def factory(decisions):
        return Interp(cfg, decisions, func, recv_class, args, closure_env, root_self)
    paths, runs = Explorer(factory, max_paths).run()
    return paths
