# -*- coding: utf-8 -*-
"""FX helpers: classification of storage events produced by PX."""
from .values import is_const, show
from . import tables as T


class FX:
    def __init__(self, model, cfg):
        self.M = model
        self.cfg = cfg
        self.leff = getattr(cfg, "layer_effects", {})
        self._cont = None

    def container_names(self):
        """names of container groups = first argument of every Container(...) construction in the repo"""
        if self._cont is None:
            import ast
            names = set()
            conts = {c.name for c in self.M.classes.values() if self.M.is_subclass(c, "Container")} if "Container" in self.M.classes else set()
            for f in self.M.funcs.values():
                for n in ast.walk(f.node):
                    if isinstance(n, ast.Call) and isinstance(n.func, ast.Name) and n.func.id in conts and n.args \
                            and isinstance(n.args[0], ast.Constant) and isinstance(n.args[0].value, str):
                        names.add(n.args[0].value)
                    if isinstance(n, ast.Call) and isinstance(n.func, ast.Attribute) and n.func.attr == "__init__" \
                            and n.args and isinstance(n.args[0], ast.Constant) and isinstance(n.args[0].value, str):
                        names.add(n.args[0].value)
            names |= {"data", "metadata"}
            self._cont = names
        return self._cont

    def effects(self, ev):
        if ev.kind == "raw":
            return {ev.kw["__effect__"].t[1]}
        if ev.kind == "layer":
            return set(self.leff.get(ev.op, ()))
        return set()

    def is_write(self, ev):
        return bool(self.effects(ev) & (T.WRITE_EFFECTS | {"W?"}))

    def is_observable_write(self, ev):
        """a write that changes what the API can observe (creating an empty container group is not)"""
        eff = self.effects(ev) & (T.WRITE_EFFECTS | {"W?"})
        if not eff:
            return False
        if ev.kind == "layer":
            m = ev.op.split(".", 1)[1]
            if m in ("open_group", "__init__"):
                cr = ev.kw.get("create")
                if cr is None or (is_const(cr) and not cr.t[1]):
                    return False
                k = ev.key
                if k is not None and is_const(k) and k.t[1] in self.container_names():
                    return False
                return True
            if m in ("_create_h5obj",):
                return False
            return True
        if eff <= {"Wgroup"}:
            return False
        return True

    def key(self, ev):
        k = ev.key
        if k is None:
            return None
        return k.t[1] if is_const(k) else show(k.t)

    def member(self, ev):
        return ev.op.split(".", 1)[1] if ev.kind == "layer" else ev.op
