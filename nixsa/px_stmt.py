# -*- coding: utf-8 -*-
"""PX statements."""
import ast
from .values import V, const, NONE, TRUE, FALSE, is_const, show, obj, clsobj, h5, py
from .model import AnalysisError, Func
from .px_core import Need, Event, Frame, ExcInfo, _Return, _Raise, _Break, _Continue
from .px_expr import BINOPS


class StmtMixin:

    def exec_block(self, stmts):
        for s in stmts:
            self.exec_stmt(s)

    def exec_stmt(self, s):
        self.steps += 1
        if self.steps > self.cfg.max_steps:
            raise AnalysisError("step budget exceeded in %s" % self.frames[0].func.qual)
        m = getattr(self, "st_" + type(s).__name__, None)
        if m is None:
            raise AnalysisError("unsupported statement %s at %s" % (type(s).__name__, self.here(s)))
        m(s)

    def st_Expr(self, s):
        self.ev(s.value)

    def st_Pass(self, s):
        pass

    def st_Import(self, s):
        pass

    def st_ImportFrom(self, s):
        pass

    def st_Global(self, s):
        pass

    def st_Nonlocal(self, s):
        fr = self.frames[-1]
        fr.nonlocals = set(getattr(fr, "nonlocals", ())) | set(s.names)

    def st_Assert(self, s):
        self.ev(s.test)

    def st_Assign(self, s):
        v = self.ev(s.value)
        if self.cfg.loop_marks and len(s.targets) == 1 and isinstance(s.targets[0], ast.Name) and v.t and v.t[0] == "list":
            # work-list bookkeeping a rule may want to follow: a list variable takes over another one / starts empty
            if isinstance(s.value, ast.Name):
                self.emit(Event("mark", "rebind-list", v, None, (), {"__var__": const(s.targets[0].id), "__from__": const(s.value.id)},
                                site=self.here(s)))
            elif not v.t[1]:
                self.emit(Event("mark", "fresh-list", v, None, (), {"__var__": const(s.targets[0].id)}, site=self.here(s)))
        for tg in s.targets:
            self.bind_target(tg, v, s)

    def st_AnnAssign(self, s):
        if s.value is not None:
            self.bind_target(s.target, self.ev(s.value), s)

    def st_AugAssign(self, s):
        tg = s.target
        op = BINOPS[type(s.op)]
        if isinstance(tg, ast.Name):
            cur = self.ev(ast.Name(id=tg.id, ctx=ast.Load(), lineno=s.lineno, col_offset=0))
            val = self.ev(s.value)
            d = self.scope_of(tg.id)
            if cur.t[0] == "list" and op == "+":
                if val.t[0] in ("list", "tuple", "gen"):
                    new = V(("list", cur.t[1] + val.t[1]), cur.ty, cur.dep | val.dep)
                else:
                    new = V(("list", cur.t[1] + (("star", val.t),)), cur.ty, cur.dep | val.dep)
                    self._remember([val])
                self.emit(Event("local", "list.extend", cur, None, (val,), {"__var__": const(tg.id)}, site=self.here(s)))
            else:
                new = self.binop(op, cur, val, s)
            if d is not None and d is not self.frames[-1].env:
                d[tg.id] = new
            else:
                self.set_local(tg.id, new)
        elif isinstance(tg, ast.Attribute):
            recv = self.ev(tg.value)
            cur = self.getattr_value(recv, tg.attr, tg)
            val = self.ev(s.value)
            self.setattr_value(recv, tg.attr, self.binop(op, cur, val, s), tg)
        elif isinstance(tg, ast.Subscript):
            base = self.ev(tg.value)
            idx = self.ev(tg.slice)
            cur = self.getitem_value(base, idx, tg)
            val = self.ev(s.value)
            self.setitem_value(base, idx, self.binop(op, cur, val, s), tg)
        else:
            raise AnalysisError("unsupported augmented assignment at %s" % self.here(s))

    def st_Delete(self, s):
        for tg in s.targets:
            self.delete_target(tg)

    def st_Return(self, s):
        v = self.ev(s.value) if s.value is not None else NONE
        if self.cfg.all_branches:
            self.frames[-1].retvals = getattr(self.frames[-1], "retvals", []) + [v]
            return
        fr = self.frames[-1]
        dep = set()
        # which of several *values* comes back depends on the conditions the return sits under (implicit flow). A handle
        # (entity object, hdf5 group/dataset) is not such a value: what is later read through it is a fact about the file,
        # whichever branch produced the handle -- and `return f(x)` inside a branch must not differ from
        # `y = f(x)` inside the branch followed by `return y` after the join.
        if not (v.ty and all(t[0] in ("obj", "h5") for t in v.ty if isinstance(t, tuple))):
            for c, _ in fr.ctrl:
                dep |= self.sym(c)
        raise _Return(v.with_dep(dep))

    def st_Raise(self, s):
        fr = self.frames[-1]
        if self.cfg.all_branches:
            if s.exc is not None:
                self.ev(s.exc)
            return
        if s.exc is None:
            # re-raise current exception
            for f in reversed(self.frames):
                if f.cur_exc is not None:
                    raise _Raise(f.cur_exc)
            self.raise_exc("RuntimeError", s, explicit=True)
        v = self.ev(s.exc)
        t = v.t
        if t[0] == "exc":
            self.raise_exc(t[1], s, True, v)
        if t[0] == "cls":
            self.raise_exc(t[1], s, True, v)
        if t[0] == "caught":
            info = self.caught[t]
            raise _Raise(info)
        for ty in self.ty(v):
            if ty[0] == "excinst":
                self.raise_exc(ty[1], s, True, v)
        self.raise_exc("Exception", s, True, v)

    def st_If(self, s):
        c = self.ev(s.test)
        if self.cfg.all_branches:
            fr = self.frames[-1]
            for blk in (s.body, s.orelse):
                fr.ctrl.append((c, blk is s.body))
                try:
                    self.exec_block(blk)
                except (_Break, _Continue):
                    pass
                finally:
                    fr.ctrl.pop()
            return
        tr = self.truth(c)
        fr = self.frames[-1]
        fr.ctrl.append((c, tr))
        try:
            self.exec_block(s.body if tr else s.orelse)
        finally:
            fr.ctrl.pop()

    def st_For(self, s):
        it0 = self.ev(s.iter)
        it = self.iterate_value(it0, s.iter)
        fr = self.frames[-1]
        t = it.t
        site = self.here(s)
        known = None
        if t[0] in ("tuple", "list", "set", "gen") and not any(x[0] == "star" for x in t[1]):
            known = len(t[1])
        k = 0
        broke = False
        loopid = (site, self.fresh(s))
        while True:
            if known is not None:
                if k >= known:
                    break
            else:
                if k >= self.cfg.unroll:
                    break
                more = self.decide(("iter", loopid, k))
                if not more:
                    break
            el = self.iter_elem(it, k, s.iter)
            self.bind_target(s.target, el)
            if self.cfg.loop_marks and isinstance(s.iter, ast.Name) and it0.t and (
                    it0.t[0] == "list" or (it0.t[0] == "call" and it0.t[1] == "list") or py("list") in (it0.ty or ())):
                # iteration over a local list variable: a rule may want to treat it as taking the head of a work list
                self.emit(Event("mark", "for-over-list", it0, const(k), (el,), {"__var__": const(s.iter.id)}, site=site))
            fr.loop.append(("for", site, k))
            marker = V(("iter", loopid, k), (), it.dep)
            fr.ctrl.append((marker, True))
            try:
                try:
                    self.exec_block(s.body)
                except _Continue:
                    pass
                except _Break:
                    broke = True
            finally:
                fr.ctrl.pop()
                fr.loop.pop()
            if broke:
                break
            k += 1
        if not broke:
            self.exec_block(s.orelse)

    def st_While(self, s):
        fr = self.frames[-1]
        site = self.here(s)
        loopid = (site, self.fresh(s))
        k = 0
        broke = False
        while True:
            c = self.ev(s.test)
            if c.t and c.t[0] in ("list", "tuple", "set") and not any(x and x[0] == "star" for x in c.t[1]):
                c = const(bool(c.t[1])).with_dep(c.dep)     # `while queue:` on a container whose content is known
            if is_const(c) and not c.t[1]:
                break
            if k >= max(self.cfg.unroll, 1) + (1 if is_const(c) else 0):
                break
            if is_const(c):
                more = True
            else:
                more = self.decide(("while", loopid, k))
            if not more:
                break
            fr.loop.append(("while", site, k))
            fr.ctrl.append((c, True))
            try:
                try:
                    self.exec_block(s.body)
                except _Continue:
                    pass
                except _Break:
                    broke = True
            finally:
                fr.ctrl.pop()
                fr.loop.pop()
            if broke:
                break
            k += 1
        if not broke:
            self.exec_block(s.orelse)

    def st_Break(self, s):
        raise _Break()

    def st_Continue(self, s):
        raise _Continue()

    def st_With(self, s):
        managers = []
        for item in s.items:
            v = self.ev(item.context_expr)
            ent = v
            cl = [c for c in self.obj_classes(v) if c in self.M.classes]
            if len(cl) == 1:
                c = self.M.classes[cl[0]]
                ex = self.M.lookup(c, "__exit__")
                if ex is not None:
                    en = self.M.lookup(c, "__enter__")
                    if en is not None:
                        ent = self.call_method(en, v, [], {}, s, cl[0])
                    managers.append((v, cl[0], ex))
            if item.optional_vars is not None:
                self.bind_target(item.optional_vars, ent)
        if not managers:
            self.exec_block(s.body)
            return
        # a context manager defined in the analysed package: its __exit__ sees what the body raises and may translate or
        # swallow it -- the classes it mentions are the ones worth distinguishing in the body (as for an except clause)
        from .px_core import BUILTIN_EXC_BASES
        fr = self.frames[-1]
        names = set()
        for _, _, ex in managers:
            for n in ast.walk(ex.node):
                if isinstance(n, ast.Name) and (n.id in BUILTIN_EXC_BASES or n.id in self.M.classes):
                    names.add(n.id)
        fr.try_catch.append(frozenset(names) if names else frozenset(["*"]))
        try:
            try:
                self.exec_block(s.body)
            finally:
                fr.try_catch.pop()
        except _Raise as r:
            info = r.exc
            for v, cn, ex in reversed(managers):
                t = ("caught", info.cls, info.site, self.fresh(s))
                self.caught[t] = info
                excv = V(t, [("excinst", info.cls)], info.ctrl)
                prev = fr.cur_exc
                fr.cur_exc = info
                fr.in_handler += 1
                marker = V(("handler", info.cls, info.site), (), info.ctrl)
                fr.ctrl.append((marker, True))
                self.emit(Event("mark", "handler:" + info.cls, None, None, (), site=self.here(s)))
                try:
                    res = self.call_method(ex, v, [V(("exccls", info.cls), [("cls", info.cls)]), excv, NONE], {}, s, cn)
                finally:
                    fr.ctrl.pop()
                    fr.in_handler -= 1
                    fr.cur_exc = prev
                if is_const(res):
                    swallowed = bool(res.t[1])
                else:
                    swallowed = self.decide(("truthy", res.t))
                if swallowed:
                    return
            raise
        except (_Return, _Break, _Continue):
            for v, cn, ex in reversed(managers):
                self.call_method(ex, v, [NONE, NONE, NONE], {}, s, cn)
            raise
        for v, cn, ex in reversed(managers):
            self.call_method(ex, v, [NONE, NONE, NONE], {}, s, cn)

    def st_FunctionDef(self, s):
        fr = self.frames[-1]
        f = None
        if fr.func is not None:
            f = getattr(fr.func, "nested", {}).get(s.name)
        if f is None:
            raise AnalysisError("nested function %s not in model at %s" % (s.name, self.here(s)))
        t = ("closure", f.qual, self.fresh(s))
        self.closures[t] = (f, fr)
        fr.env[s.name] = V(t, [("closure", f.qual)])

    def st_ClassDef(self, s):
        raise AnalysisError("nested class definition at %s" % self.here(s))

    def handler_names(self, h):
        if h.type is None:
            return ["*"]
        v = self.ev(h.type)
        t = v.t
        out = []
        for x in (t[1] if t[0] == "tuple" else (t,)):
            if x[0] == "cls":
                out.append(x[1])
            elif x[0] == "ext":
                out.append(x[1].split(".")[-1])
            else:
                out.append("*")
        return ["*" if n in ("Exception", "BaseException") else n for n in out]

    def st_Try(self, s):
        fr = self.frames[-1]
        caught_names = []
        for h in s.handlers:
            caught_names.append(self.handler_names(h))
        flat = set(x for names in caught_names for x in names)
        depth = len(self.frames)
        if self.cfg.all_branches:
            self.exec_block(s.body)
            for h in s.handlers:
                info = ExcInfo("Exception", self.here(h), None, frozenset(), False)
                self.run_handler(fr, h, info)
            self.exec_block(s.orelse)
            self.exec_block(s.finalbody)
            return
        try:
            try:
                fr.try_catch.append(flat)
                try:
                    self.exec_block(s.body)
                finally:
                    fr.try_catch.pop()
            except _Raise as r:
                del self.frames[depth:]
                info = r.exc
                for h, names in zip(s.handlers, caught_names):
                    if any(n == "*" or self.exc_is(info.cls, n) for n in names):
                        fr.ctrl[:] = fr.ctrl[:self._ctrl_depth(fr, s)]
                        self.run_handler(fr, h, info)
                        break
                else:
                    raise
            else:
                self.exec_block(s.orelse)
        finally:
            if s.finalbody:
                self.exec_block(s.finalbody)

    def _ctrl_depth(self, fr, s):
        return getattr(s, "_px_ctrl_depth", len(fr.ctrl))

    def run_handler(self, fr, h, info):
        if h.name:
            t = ("caught", info.cls, info.site, self.fresh(h))
            self.caught[t] = info
            fr.env[h.name] = V(t, [("excinst", info.cls)], info.ctrl)
        prev = fr.cur_exc
        fr.cur_exc = info
        fr.in_handler += 1
        # what the handler's results depend on implicitly: the conditions between the handler's own frame and the raise --
        # not those of the callers (a callee analysed on its own, as the composition does, could not see them either)
        hdep = info.ctrl
        counts = getattr(info, "ctrl_by_depth", None)
        if counts is not None and fr in self.frames:
            d_ = self.frames.index(fr)
            if d_ < len(counts):
                skip = sum(counts[:d_])
                hdep = frozenset(s_ for c_, _ in info.ctrl_conds[skip:] for s_ in self.sym(c_))
        marker = V(("handler", info.cls, info.site), (), hdep)
        fr.ctrl.append((marker, True))
        self.emit(Event("mark", "handler:" + info.cls, None, None, (), site=self.here(h)))
        try:
            self.exec_block(h.body)
        finally:
            fr.ctrl.pop()
            fr.in_handler -= 1
            fr.cur_exc = prev
