# -*- coding: utf-8 -*-
"""PX calls: resolution, inlining, constructors, hdf5-layer and raw h5py storage events."""
import ast
from .values import V, const, NONE, TRUE, FALSE, is_const, show, obj, clsobj, h5, py, subterms
from .model import AnalysisError, Func, ClassInfo
from .px_core import Need, Event, Frame, ExcInfo, _Return, _Raise, BUILTIN_EXC_BASES
from .px_attr import PRESENT
from . import tables as T

KEYPARAMS = ("name", "id_or_name", "key", "item", "id_", "pos", "eid")
MUTATOR_HINT = ("create", "require", "move", "copy", "resize", "write", "modify", "pop", "clear", "update",
                "setdefault", "flush", "close", "__setitem__", "__delitem__", "attach", "detach", "make_scale")
ABSENT = V(("absent",))


class CallMixin:

    # ---------------------------------------------------------------- events / raises
    def emit(self, ev):
        fr = self.frames[-1]
        ev.func = fr.func.qual if fr.func else None
        ev.stack = tuple(f.func.qual for f in self.frames if f.func is not None)
        ctrl = []
        for f in self.frames:
            ctrl.extend(f.ctrl)
        ev.ctrl = tuple(ctrl)
        ev.loop = tuple(x for f in self.frames for x in f.loop)
        ev.handler = any(f.in_handler for f in self.frames)
        ev.idx = len(self.events)
        self.events.append(ev)
        return ev

    def ctrl_symbols(self):
        s = set()
        for f in self.frames:
            for c, _ in f.ctrl:
                s |= self.sym(c)
        return frozenset(s)

    def raise_exc(self, cls, node, explicit=True, value=None):
        fr = self.frames[-1]
        info = ExcInfo(cls, self.here(node), fr.func.qual if fr.func else None, self.ctrl_symbols(), explicit, value,
                       tuple(f.func.qual for f in self.frames if f.func is not None))
        info.ctrl_conds = tuple((c, p) for f in self.frames for c, p in f.ctrl)
        info.ctrl_by_depth = tuple(len(f.ctrl) for f in self.frames)
        info.nevents = len(self.events)
        raise _Raise(info)

    def exc_is(self, cls, base):
        """is exception class `cls` a subclass of `base` (names)"""
        seen = set()
        cur = [cls]
        while cur:
            c = cur.pop()
            if c == base:
                return True
            if c in seen:
                continue
            seen.add(c)
            if c in self.M.classes:
                k = self.M.classes[c]
                for b in k.bases:
                    cur.append(b.name if isinstance(b, ClassInfo) else b[1].split(".")[-1])
            elif c in BUILTIN_EXC_BASES and BUILTIN_EXC_BASES[c]:
                cur.append(BUILTIN_EXC_BASES[c])
        return False

    # ---------------------------------------------------------------- call dispatch
    def ev_Call(self, e):
        f = e.func
        # super(...).m(...)
        if isinstance(f, ast.Attribute) and isinstance(f.value, ast.Call) and isinstance(f.value.func, ast.Name) \
                and f.value.func.id == "super":
            return self.super_call(e, f)
        # list-like local mutation:  name.append(x) ...
        if isinstance(f, ast.Attribute) and isinstance(f.value, ast.Name) and f.attr in ("add", "discard", "update"):
            d = self.scope_of(f.value.id)
            if d is not None and d[f.value.id].t[0] == "set":
                cur = d[f.value.id]
                args, _ = self.eval_args(e)
                items = list(cur.t[1])
                if f.attr == "add" and args:
                    if args[0].t not in items:
                        items.append(args[0].t)
                elif f.attr == "discard" and args:
                    items = [x for x in items if x != args[0].t]
                elif f.attr == "update" and args:
                    a0 = args[0]
                    items += list(a0.t[1]) if a0.t[0] in ("list", "tuple", "set") else [("star", a0.t)]
                self._remember(args)
                self.emit(Event("local", "set." + f.attr, cur, None, tuple(args), site=self.here(e)))
                d[f.value.id] = V(("set", tuple(items)), cur.ty, cur.dep | self._deps(args) | self.ctrl_symbols())
                return NONE
        if isinstance(f, ast.Attribute) and isinstance(f.value, ast.Name) and f.attr in ("append", "extend", "pop",
                                                                                        "insert", "remove", "popleft", "appendleft"):
            d = self.scope_of(f.value.id)
            if d is not None and ((d[f.value.id].t[0] == "comp" and d[f.value.id].t[1] == "list") or
                                  (d[f.value.id].t[0] == "call" and py("list") in d[f.value.id].ty)):
                # a list whose content is not known element by element: keep it as a starred prefix so that what is
                # appended later stays visible
                cur = d[f.value.id]
                self._remember([cur])
                d[f.value.id] = V(("list", (("star", cur.t),)), cur.ty, cur.dep)
            if d is not None and d[f.value.id].t[0] == "list":
                return self.list_mutation(d, f.value.id, f.attr, e)
        args, kwargs = self.eval_args(e)
        if isinstance(f, ast.Attribute):
            recv = self.ev(f.value)
            return self.call_attr(recv, f.attr, args, kwargs, e)
        fv = self.ev(f)
        return self.call_value(fv, args, kwargs, e)

    def eval_args(self, e):
        args = []
        for a in e.args:
            if isinstance(a, ast.Starred):
                v = self.ev(a.value)
                if v.t[0] in ("tuple", "list") and not any(x[0] == "star" for x in v.t[1]):
                    args.extend(self.lift(x, v.dep) for x in v.t[1])
                else:
                    args.append(V(("star", v.t), (), v.dep))
            else:
                args.append(self.ev(a))
        kwargs = {}
        for k in e.keywords:
            if k.arg is None:
                v = self.ev(k.value)
                if v.t[0] == "dict" and all(kk[0] == "const" for kk, _ in v.t[1]):
                    for kk, vv in v.t[1]:
                        kwargs[kk[1]] = self.lift(vv, v.dep)
                else:
                    kwargs["**"] = v
            else:
                kwargs[k.arg] = self.ev(k.value)
        self._remember(args + list(kwargs.values()))
        return args, kwargs

    def list_mutation(self, d, name, op, e):
        cur = d[name]
        items = list(cur.t[1])
        args, _ = self.eval_args(e)
        if op == "popleft" and not args:
            op, args = "pop", [const(0)]
        elif op == "appendleft" and len(args) == 1:
            op, args = "insert", [const(0), args[0]]
        dep = cur.dep | self._deps(args) | self.ctrl_symbols()
        if op == "append":
            items.append(args[0].t)
        elif op == "extend":
            a = args[0]
            if a.t[0] in ("list", "tuple"):
                items.extend(a.t[1])
            elif a.t[0] == "gen":
                items.extend(a.t[1])
            else:
                items.append(("star", a.t))
        elif op == "insert":
            if is_const(args[0]) and isinstance(args[0].t[1], int):
                items.insert(args[0].t[1], args[1].t)
            else:
                items.append(("star", ("tuple", (args[1].t,))))
        elif op == "pop":
            idx = args[0].t[1] if args and is_const(args[0]) else -1
            if items and not any(x[0] == "star" for x in items) and isinstance(idx, int) and -len(items) <= idx < len(items):
                x = items.pop(idx)
                d[name] = V(("list", tuple(items)), cur.ty, dep)
                ev = self.emit(Event("local", "list.pop", cur, const(idx), (), {"__var__": const(name)}, site=self.here(e)))
                return self.lift(x, dep)
            self.emit(Event("local", "list.pop", cur, const(idx), (), {"__var__": const(name)}, site=self.here(e)))
            ety = [t[1] for t in cur.ty if t[0] == "elemty"]
            return V(("popped", cur.t, self.fresh(e)), ety, dep)
        elif op == "remove":
            items = [x for x in items if x != args[0].t]
        self.emit(Event("local", "list." + op, cur, None, tuple(args), {"__var__": const(name)}, site=self.here(e)))
        d[name] = V(("list", tuple(items)), cur.ty, dep)
        return NONE

    def call_attr(self, recv, name, args, kwargs, node):
        hk = (recv.t, name)
        if hk in self.heap:
            return self.call_value(self.heap[hk], args, kwargs, node)
        tys = self.ty(recv)
        for t in tys:
            k = t[0]
            if k in ("mod", "ext", "cls"):
                fv = self.getattr_value(recv, name, node)
                return self.call_value(fv, args, kwargs, node, via_class=(t[1] if k == "cls" else None))
            if k == "h5":
                return self.raw_op(recv, t[1], name, args, kwargs, node)
        cname = self.pick_class(recv, name, ("methods", "getters"))
        if cname is not None:
            c = self.M.classes[cname]
            f = self.M.lookup(c, name)
            if f is not None:
                if self.is_layer(cname) and f.qual not in self.cfg.inline_layer:
                    return self.layer_call(recv, cname, f, args, kwargs, node)
                return self.call_method(f, recv, args, kwargs, node, cname)
            g = self.M.lookup(c, name, "getters")
            if g is not None:
                fv = self.instance_attr(recv, cname, name, node)
                return self.call_value(fv, args, kwargs, node)
            if c.is_enum or name in ("encode", "decode", "format", "lower", "upper"):
                pass
            else:
                fv = self.instance_attr(recv, cname, name, node)
                if fv.t[0] != "attr":
                    return self.call_value(fv, args, kwargs, node)
        return self.opaque_method(recv, name, args, kwargs, node)

    def opaque_method(self, recv, name, args, kwargs, node):
        self._remember([recv] + list(args))
        dep = recv.dep | self._deps(args) | self._deps(list(kwargs.values()))
        rt = recv.t
        # pure string / tuple helpers on constants
        if is_const(recv) and isinstance(rt[1], (str, bytes)) and all(is_const(a) for a in args) and \
                all(is_const(x) for x in kwargs.values()) and name in ("format", "lower", "upper", "encode", "decode", "split",
                                                        "replace", "strip", "join", "startswith", "endswith"):
            try:
                return const(getattr(rt[1], name)(*[a.t[1] for a in args], **{k: x.t[1] for k, x in kwargs.items()})).with_dep(dep)
            except Exception:
                pass
        if rt[0] in ("tuple", "list") and name == "count" and args and self._constlike(args[0].t) and \
                all(self._constlike(x) for x in rt[1]):
            return const(sum(1 for x in rt[1] if x == args[0].t)).with_dep(dep)
        is_repo_name = name in self.repo_method_names()
        if is_repo_name and not any(t[0] == "py" for t in self.ty(recv)):
            self.emit(Event("ucall", name, recv, args[0] if args else None, tuple(args), kwargs,
                            site=self.here(node)))
        ty = ()
        if name in ("format", "lower", "upper", "decode", "strip", "replace", "join"):
            ty = [py("str")]
        elif name in ("astype", "flatten", "ravel", "reshape", "copy") and any(t == py("ndarray") for t in self.ty(recv)):
            ty = [py("ndarray")]
        return V(("mcall", name, rt, tuple(a.t for a in args), tuple(sorted((k, x.t) for k, x in kwargs.items()))),
                 ty, dep)

    def repo_method_names(self):
        r = getattr(self.cfg, "_repo_method_names", None)
        if r is None:
            r = set()
            for c in self.M.classes.values():
                r |= set(c.methods)
            r -= {"append", "extend", "items", "copy", "format", "index", "count", "get", "keys", "values", "pop",
                  "len", "split", "match", "group", "open"}
            self.cfg._repo_method_names = r
        return r

    def call_value(self, fv, args, kwargs, node, via_class=None):
        t = fv.t
        h = t[0]
        if h == "bm":
            f, recv, cname = self.bound[t]
            if via_class and f.deco is None:
                # unbound call through the class: Class.method(self, ...)
                if f.cls and recv.t[0] == "cls":
                    if not args:
                        raise AnalysisError("unbound method call without receiver at %s" % self.here(node))
                    if self.is_layer(f.cls.name):
                        return self.layer_call(args[0], f.cls.name, f, args[1:], kwargs, node)
                    return self.call_function(f, args[0], args[1:], kwargs, node, None)
            if self.is_layer(cname) and f.qual not in self.cfg.inline_layer:
                return self.layer_call(recv, cname, f, args, kwargs, node)
            return self.call_method(f, recv, args, kwargs, node, cname)
        if h == "rawm":
            _, recv, kind = self.bound[t]
            return self.raw_op(recv, kind, t[3], args, kwargs, node)
        if h == "fn":
            f = self.M.funcs[t[1]]
            if len(t) > 2 and t[2] == "raw":
                # the undecorated function, called by its decorator's wrapper: a method takes its receiver first
                if f.cls is not None and f.deco != "staticmethod" and args:
                    return self.call_function(f, args[0], args[1:], kwargs, node, None, raw=True)
                return self.call_function(f, None, args, kwargs, node, None, raw=True)
            return self.call_function(f, None, args, kwargs, node, None)
        if h == "cls":
            return self.construct(t[1], args, kwargs, node)
        if h == "closure":
            f, fr = self.closures[t]
            return self.call_function(f, None, args, kwargs, node, None, closure=fr)
        if h == "lambda":
            for ty in fv.ty:
                if ty[0] == "lambda":
                    return self.call_lambda(ty[1], ty[2], args, kwargs, node)
        if h == "builtin":
            return self.call_builtin(t[1], args, kwargs, node)
        if h == "partial":
            inner, pre, prekw = self.partials[t]
            kw2 = dict(prekw)
            kw2.update(kwargs)
            return self.call_value(inner, list(pre) + list(args), kw2, node)
        if h == "attrgetter" and len(args) == 1 and not kwargs:
            return self.getattr_value(args[0], t[1], node)
        if h == "methodcaller" and len(args) == 1 and not kwargs:
            margs, mkw = self.partials[t]
            return self.call_attr(args[0], t[1], list(margs), dict(mkw), node)
        if h == "ntcls":
            # collections.namedtuple class: an instance is a tuple whose fields are also reachable by name
            fields = t[2]
            vals = list(args) + [kwargs[k] for k in fields[len(args):] if k in kwargs]
            if len(vals) == len(fields):
                tv = V(("tuple", tuple(v.t for v in vals)), [py("tuple")], self._deps(vals))
                self.ntfields[tv.t] = fields
                self._remember(vals)
                return tv
        if h == "ext":
            return self.call_external(t[1], args, kwargs, node)
        if h == "bmeth":
            return self.opaque_method(V(t[1]), t[2], args, kwargs, node)
        # opaque callable (parameter, attribute of unknown object, ...)
        self._remember([fv] + list(args))
        self.emit(Event("callv", show(t), fv, args[0] if args else None, tuple(args), kwargs, site=self.here(node)))
        return V(("call", show(t), tuple(a.t for a in args), self.fresh(node)), (), fv.dep | self._deps(args))

    def super_call(self, e, f):
        fr = self.frames[-1]
        sargs = f.value.args
        cur = fr.clsctx
        if sargs and isinstance(sargs[0], ast.Name) and sargs[0].id in self.M.classes:
            cur = self.M.classes[sargs[0].id]
        selfv = fr.selfv
        if selfv is None or cur is None:
            raise AnalysisError("super() outside method at %s" % self.here(e))
        if selfv.t[0] == "cls":
            concrete = selfv.t[1]
        else:
            cl = self.obj_classes(selfv)
            concrete = cl[0] if cl else cur.name
        args, kwargs = self.eval_args(e)
        target = self.M.lookup(self.M.classes.get(concrete, cur), f.attr, "methods", after=cur)
        if target is None:
            if f.attr == "__init__":
                return NONE
            ext = self.M.ext_bases(cur)
            if ext:
                return V(("call", "super." + f.attr, tuple(a.t for a in args), self.fresh(e)), (), self._deps(args))
            raise AnalysisError("super().%s not resolved at %s" % (f.attr, self.here(e)))
        return self.call_function(target, selfv, args, kwargs, e, concrete)

    def call_method(self, f, recv, args, kwargs, node, cname):
        if f.deco == "staticmethod":
            return self.call_function(f, None, args, kwargs, node, cname)
        if f.deco == "classmethod":
            if recv.t[0] == "cls":
                clsv = recv
            else:
                clsv = V(("cls", cname), [clsobj(cname)])
            return self.call_function(f, clsv, args, kwargs, node, cname)
        if recv.t[0] == "cls":
            # Class.method(obj, ...) explicit receiver
            if not args:
                raise AnalysisError("unbound method call without receiver at %s" % self.here(node))
            return self.call_function(f, args[0], args[1:], kwargs, node, None)
        return self.call_function(f, recv, args, kwargs, node, cname)

    # ---------------------------------------------------------------- inlining
    def bind_params(self, f, selfv, args, kwargs, node):
        a = f.node.args
        names = [x.arg for x in a.posonlyargs + a.args]
        env = {}
        pos = list(args)
        if selfv is not None and names:
            env[names[0]] = selfv
            names = names[1:]
        defaults = list(a.defaults)
        nodef = len(names) - len(defaults)
        if selfv is not None:
            nodef = len(names) - len(defaults)
        star_in = [x for x in pos if x.t[0] == "star"]
        pos = [x for x in pos if x.t[0] != "star"]
        for i, nm in enumerate(names):
            if i < len(pos):
                env[nm] = pos[i]
            elif nm in kwargs:
                env[nm] = kwargs[nm]
            elif star_in or "**" in kwargs:
                env[nm] = V(("param*", f.qual, nm, self.fresh(node)))
            elif i >= nodef and nodef >= 0:
                env[nm] = self.eval_in_module(f.module, defaults[i - nodef], f.cls)
            else:
                raise AnalysisError("missing argument %s calling %s at %s" % (nm, f.qual, self.here(node)))
        extra = pos[len(names):]
        if a.vararg is not None:
            env[a.vararg.arg] = V(("tuple", tuple(x.t for x in extra)), [py("tuple")], self._deps(extra))
        elif extra:
            raise AnalysisError("too many arguments calling %s at %s" % (f.qual, self.here(node)))
        for k, d in zip(a.kwonlyargs, a.kw_defaults):
            if k.arg in kwargs:
                env[k.arg] = kwargs[k.arg]
            elif d is not None:
                env[k.arg] = self.eval_in_module(f.module, d, f.cls)
        if a.kwarg is not None:
            rest = {k: v for k, v in kwargs.items() if k not in env and k != "**"}
            env[a.kwarg.arg] = V(("dict", tuple((("const", k), v.t) for k, v in sorted(rest.items()))), [py("dict")])
        return env

    def repo_decorators(self, f):
        """decorators of f that are functions of the analysed package (property / setter / classmethod ... are the model's)"""
        out = []
        for d in getattr(f.node, "decorator_list", ()):
            if isinstance(d, ast.Name):
                r = self.M.module_member(f.module.name, d.id)
                if r is not None and r[0] == "func":
                    out.append(r[1])
        return out

    def call_function(self, f, selfv, args, kwargs, node, concrete, closure=None, raw=False):
        if not raw and closure is None and f.qual not in self.cfg.opaque:
            decos = self.repo_decorators(f)
            if decos and not any(fr.func is f for fr in self.frames):
                # a function wrapped by a decorator of the package: call what the decorator returns (the wrapper calls the
                # undecorated function through the value it was handed)
                fv = V(("fn", f.qual, "raw"), [("fn", f.qual)])
                for dfn in reversed(decos):
                    fv = self.call_function(dfn, None, [fv], {}, node, None)
                return self.call_value(fv, ([selfv] if selfv is not None else []) + list(args), kwargs, node)
        if self.cfg.no_inline and self.frames and self.frames[-1].func is not None and closure is None:
            return self.opaque_call(f, selfv, args, kwargs, node, raises=False)
        if f.qual in self.cfg.opaque or (f.module.name in self.cfg.opaque_modules and f.cls is None
                                         and (not self.frames or self.frames[-1].module.name != f.module.name)
                                         and self.frames[0].module.name != f.module.name):
            return self.opaque_call(f, selfv, args, kwargs, node)
        if any(fr.func is f for fr in self.frames):
            self.emit(Event("rcall", f.qual, selfv, args[0] if args else None, tuple(args), kwargs,
                            site=self.here(node)))
            return V(("call", f.qual, tuple(a.t for a in args), self.fresh(node)), (), self._deps(args))
        if len(self.frames) > self.cfg.max_depth:
            raise AnalysisError("inlining depth exceeded at %s calling %s" % (self.here(node), f.qual))
        env = self.bind_params(f, selfv, args, kwargs, node)
        if self.can_compose(f, closure):
            return self.call_composed(f, env, selfv, node, f.cls or getattr(f, "owner_cls", None))
        fr = Frame(f, env, selfv, f.cls or getattr(f, "owner_cls", None), f.module)
        if closure is not None:
            fr.closure_env = closure.env
            fr.closure_parent = closure
            if fr.selfv is None:
                fr.selfv = closure.selfv
                fr.clsctx = closure.clsctx
        fr.callsite = self.here(node) if self.frames else None
        gen = f.is_generator()
        fr.yields = []
        self.frames.append(fr)
        try:
            try:
                self.exec_block(f.node.body)
                ret = NONE
                if self.cfg.all_branches and getattr(fr, "retvals", None):
                    ret = fr.retvals[0]
            except _Return as r:
                ret = r.v
        finally:
            self.frames.pop()
        if gen:
            ys = fr.yields
            self._remember(ys)
            ety = set()
            for y in ys:
                ety |= {("elemty", t) for t in y.ty}
            return V(("gen", tuple(y.t for y in ys)), [py("gen")] + list(ety), self._deps(ys))
        return ret

    def call_lambda(self, lam, defining_frame, args, kwargs, node):
        names = [x.arg for x in lam.args.args]
        env = {}
        for i, nm in enumerate(names):
            if i < len(args):
                env[nm] = args[i]
            elif nm in kwargs:
                env[nm] = kwargs[nm]
            else:
                nd = len(names) - len(lam.args.defaults)
                env[nm] = self.ev(lam.args.defaults[i - nd]) if i >= nd else NONE
        fr = Frame(defining_frame.func, env, defining_frame.selfv, defining_frame.clsctx, defining_frame.module)
        fr.closure_env = defining_frame.env
        fr.closure_parent = defining_frame
        fr.func = None
        self.frames.append(fr)
        try:
            return self.ev(lam.body)
        finally:
            self.frames.pop()

    def opaque_call(self, f, selfv, args, kwargs, node, raises=True):
        spec = self.cfg.opaque.get(f.qual)
        self.emit(Event("ocall", f.qual, selfv, args[0] if args else None, tuple(args), kwargs, site=self.here(node)))
        ty = ()
        if spec:
            if spec[0] == "list":
                ty = [py("list"), ("elemty", spec[1])]
            else:
                ty = [spec]
        for rc in (sorted(self.cfg.raises_of(f)) if raises else ()):
            n = len([x for x in self.events if x.site == self.here(node)])
            if self.decide(("oraise", f.qual, self.here(node), n, rc)):
                fr = self.frames[-1]
                marker = V(("oraise", f.qual, tuple(a.t for a in args)), (), self._deps(args))
                fr.ctrl.append((marker, True))
                try:
                    self.raise_exc(rc, node, explicit=True)
                finally:
                    fr.ctrl.pop()
        if f.module.name in self.cfg.opaque_modules and not spec:
            return V(("call", f.qual, tuple(a.t for a in args)), ty,
                     self._deps(args) | (selfv.dep if selfv is not None else frozenset()))
        return V(("call", f.qual, tuple(a.t for a in args), self.fresh(node)), ty,
                 self._deps(args) | (selfv.dep if selfv is not None else frozenset()))

    # ---------------------------------------------------------------- constructors
    def construct(self, cname, args, kwargs, node):
        c = self.M.classes.get(cname)
        if c is None or self.exc_is(cname, "BaseException"):
            self._remember(args)
            return V(("exc", cname, tuple(a.t for a in args)), [("excinst", cname)], self._deps(args))
        if c.is_enum:
            a = args[0] if args else NONE
            if any(t == obj(cname) for t in self.ty(a)):
                return a
            if a.t[0] == "attr" and a.t[2] == "value" and a.t[1][0] in ("enumof", "enum") and a.t[1][1] == cname:
                # Enum(member.value) is member: the round trip through the stored value keeps the identity of the term,
                # so later tests on it agree with earlier ones on this path
                return V(a.t[1], [obj(cname)], a.dep)
            _, _, byval = self.M.enum_members(c)
            if is_const(a):
                if a.t[1] in byval:
                    return V(("enum", cname, byval[a.t[1]]), [obj(cname)], a.dep)
                self.raise_exc("ValueError", node, explicit=False)
            if self.sym(a) and any(s[0] == "param" for s in self.sym(a)):
                ok = self.decide(("enumvalid", cname, a.t))
                if not ok:
                    fr = self.frames[-1]
                    fr.ctrl.append((V(("enumvalid", cname, a.t), (), a.dep), False))
                    try:
                        self.raise_exc("ValueError", node, explicit=False)
                    finally:
                        fr.ctrl.pop()
            return V(("enumof", cname, a.t), [obj(cname)], a.dep)
        if self.is_layer(cname):
            init = self.M.lookup(c, "__init__")
            self._remember(args)
            inst = V(("lres", "new:" + cname, ("cls", cname), tuple(a.t for a in args)), [obj(cname)],
                     self._deps(args))
            if init is not None:
                bound = self.bind_for_event(init, args, kwargs, node)
                self.emit(Event("layer", cname + ".__init__", inst, self.key_of(bound), tuple(args), bound,
                                site=self.here(node)))
            return inst
        inst = V(("inst", cname, self.fresh(node)), [obj(cname)])
        init = self.M.lookup(c, "__init__")
        if init is not None:
            self.call_function(init, inst, args, kwargs, node, cname)
        return inst

    # ---------------------------------------------------------------- hdf5 layer boundary
    def bind_for_event(self, f, args, kwargs, node):
        try:
            env = self.bind_params(f, V(("dummy",)), args, kwargs, node)
        except AnalysisError:
            env = {"arg%d" % i: a for i, a in enumerate(args)}
            env.update(kwargs)
        names = f.params
        if names:
            env.pop(names[0], None)
        return env

    def key_of(self, bound):
        for k in KEYPARAMS:
            if k in bound:
                return bound[k]
        return None

    def layer_call(self, recv, cname, f, args, kwargs, node):
        bound = self.bind_for_event(f, args, kwargs, node)
        key = self.key_of(bound)
        member = f.name + {"fn": "", "get": "", "set": "@set", "del": "@del"}[f.kind]
        op = f.cls.name + "." + member
        ev = self.emit(Event("layer", op, recv, key, tuple(args), bound, site=self.here(node)))
        rt = recv.t
        dep = recv.dep | self._deps(args) | self._deps(list(kwargs.values()))
        self._remember([recv] + list(args) + list(kwargs.values()))
        # modelled raises inside try blocks that would catch them
        if self.cfg.model_layer_raises:
            rs = self.cfg.layer_raises.get(op, ())
            for rc in sorted(rs):
                if self.would_catch(rc, specific=True):
                    if self.decide(("lraise", ev.site, len([x for x in self.events if x.site == ev.site]), rc)):
                        self.raise_exc(rc, node, explicit=False)
        kt = key.t if key is not None else None
        st = self.store
        if member == "set_attr":
            val = bound.get("value", NONE)
            st[(rt, "attr", kt)] = ABSENT if (is_const(val) and val.t[1] is None) else val
            return NONE
        if member == "get_attr":
            hit = st.get((rt, "attr", kt))
            if hit is not None:
                return NONE.with_dep(dep) if hit is ABSENT else hit.with_dep(dep)
            return V(("rd", "attr", rt, kt), (), dep)
        if member in ("create_link", "write_data", "create_dataset"):
            st[(rt, "child", kt)] = PRESENT
            if member == "write_data":
                st[(rt, "data", kt)] = bound.get("data", NONE)
        if member == "open_group":
            cr = bound.get("create", FALSE)
            if is_const(cr) and cr.t[1]:
                st[(rt, "child", kt)] = PRESENT
        if member in ("delete", "__delitem__"):
            st[(rt, "child", kt)] = ABSENT
            st.pop((rt, "data", kt), None)
        if member == "delete_all":
            for k in list(st):
                if k[1] in ("child", "data"):
                    del st[k]
        if member in ("__contains__", "has_data"):
            hit = st.get((rt, "child", kt))
            if hit is PRESENT:
                return TRUE.with_dep(dep)
            if hit is ABSENT:
                return FALSE.with_dep(dep)
            return V(("rd", "child", rt, kt), [py("bool")], dep)
        if member == "get_data":
            hit = st.get((rt, "data", kt))
            if hit is not None:
                return hit.with_dep(dep)
            return V(("rd", "data", rt, kt), [py("ndarray")], dep)
        ty = T.LAYER_RET.get(f.name)
        tys = [ty] if ty else []
        if member in ("__len__",):
            tys = [py("int")]
        if member in ("__iter__", "find_children"):
            tys = [py("gen"), ("elemty", obj("H5Group"))]
        argt = tuple(a.t for a in args) + tuple(("kw", k, v.t) for k, v in sorted(kwargs.items()))
        if f.kind == "get" or member in ("open_group", "get_dataset", "get_by_name", "get_by_id", "get_by_id_or_name",
                                         "get_by_pos", "__len__", "has_by_id", "__iter__", "parent"):
            return V(("lres", member, rt, argt), tys, dep)
        return V(("lres", member, rt, argt, self.fresh(node)), tys, dep)

    def would_catch(self, cls, specific=False):
        for c in self.outer_catch:
            if (c == "*" and not specific) or self.exc_is(cls, c):
                return True
        for fr in reversed(self.frames):
            for caught in reversed(fr.try_catch):
                for c in caught:
                    if (c == "*" and not specific) or self.exc_is(cls, c):
                        return True
        return False

    # ---------------------------------------------------------------- raw h5py objects
    def raw_op(self, recv, kind, op, args, kwargs, node):
        eff = T.RAW_OPS.get((kind, op))
        if eff is None:
            eff = "W?" if any(op.startswith(m) for m in MUTATOR_HINT) else "R"
        key = args[0] if args else None
        ev = self.emit(Event("raw", kind + "." + op, recv, key, tuple(args), dict(kwargs, **{"__effect__": const(eff)}),
                             site=self.here(node)))
        rt = recv.t
        kt = key.t if key is not None else None
        dep = recv.dep | self._deps(args)
        self._remember([recv] + list(args))
        st = self.store
        skind = "attr" if kind == "attrs" else "child"
        fr = self.frames[-1]
        if fr.try_catch and eff in ("R",) or (fr.try_catch and op in ("__delitem__", "__setitem__", "flush", "close")):
            for rc in sorted(fr.try_catch[-1]):
                if rc != "*" or op == "__delitem__":
                    if self.decide(("rraise", kind + "." + op, rt, kt, rc)):
                        marker = V(("rraise", kind + "." + op, rt, kt), (), dep)
                        fr.ctrl.append((marker, True))
                        try:
                            self.raise_exc("Exception" if rc == "*" else rc, node, explicit=False)
                        finally:
                            fr.ctrl.pop()
        if op == "__setitem__":
            st[(rt, skind, kt)] = args[1] if skind == "attr" else PRESENT
            return NONE
        if op in ("__delitem__", "pop"):
            st[(rt, skind, kt)] = ABSENT
            return NONE
        if op == "modify" and kind == "attrs":
            st[(rt, skind, kt)] = args[1] if len(args) > 1 else PRESENT
            return NONE
        if op in ("require_dataset", "create_dataset"):
            st[(rt, "child", kt)] = PRESENT
            return V(("rawres", op, rt, kt), [h5("ds")], dep)
        if op in ("create_group", "require_group"):
            st[(rt, "child", kt)] = PRESENT
            return V(("rawres", op, rt, kt), [h5("grp")], dep)
        if op == "__contains__":
            hit = st.get((rt, skind, kt))
            if hit is not None:
                return (FALSE if hit is ABSENT else TRUE).with_dep(dep)
            return V(("rd", skind, rt, kt), [py("bool")], dep)
        if op in ("__getitem__", "get"):
            if kind == "attrs":
                hit = st.get((rt, "attr", kt))
                if hit is not None and hit is not PRESENT:
                    return NONE.with_dep(dep) if hit is ABSENT else hit.with_dep(dep)
                return V(("rd", "attr", rt, kt), (), dep)
            if kind in ("grp", "file"):
                if op == "get" and "getclass" in kwargs:
                    return V(("rd", "class", rt, kt), (), dep)
                return V(("sub", rt, kt), [h5("obj")], dep)
            if kind == "obj" and key is not None:
                datakey = (is_const(key) and not isinstance(key.t[1], str)) or kt[0] in ("slice", "tuple") or \
                    any(t in (py("int"), py("slice"), py("tuple"), py("list"), py("ndarray")) for t in key.ty)
                if not datakey:
                    return V(("sub", rt, kt), [h5("obj")], dep)
            return V(("rd", "data", rt, kt), [py("ndarray")], dep)
        if op in ("values", "keys", "items"):
            ety = h5("obj") if op == "values" else py("str")
            if kind == "attrs":
                ety = py("val")
            return V(("rawres", op, rt), [py("gen"), ("elemty", ety)], dep)
        if op in ("visititems", "visit") and args:
            cb = args[0]
            fr = self.frames[-1]
            fr.loop.append(("visit", getattr(node, "lineno", 0)))
            try:
                if self.decide(("iter", "visit", self.here(node), self.fresh(node))):
                    cargs = [V(("visitname", rt), [py("str")])]
                    if op == "visititems":
                        cargs.append(V(("visitobj", rt), [h5("obj")], dep))
                    self.call_value(cb, cargs, {}, node)
            finally:
                fr.loop.pop()
            return NONE
        if op == "copy":
            return NONE
        if op in ("__len__", "len"):
            return V(("rawres", "len", rt), [py("int")], dep)
        return V(("rawres", op, rt, tuple(a.t for a in args), self.fresh(node)), (), dep)

    # ---------------------------------------------------------------- externals
    def call_external(self, dotted, args, kwargs, node):
        if dotted == "functools.reduce" and len(args) in (2, 3) and not kwargs:
            seq = args[1]
            if seq.t and seq.t[0] in ("tuple", "list") and not any(x and x[0] == "star" for x in seq.t[1]) and len(seq.t[1]) <= 32:
                # a fold over a table of known length: the function applied row by row
                ety = [t[1] for t in seq.ty if t[0] == "elemty"]
                rows = [V(t, ety, seq.dep) for t in seq.t[1]]
                if len(args) == 3:
                    acc = args[2]
                elif rows:
                    acc, rows = rows[0], rows[1:]
                else:
                    self.raise_exc("TypeError", node, explicit=False)
                for r in rows:
                    acc = self.call_value(args[0], [acc, r], {}, node)
                return acc
        if dotted == "functools.partial" and args:
            t = ("partial", args[0].t, tuple(a.t for a in args[1:]), tuple(sorted((k, v.t) for k, v in kwargs.items())), self.fresh(node))
            self.partials[t] = (args[0], list(args[1:]), dict(kwargs))
            return V(t, [py("callable")], self._deps(args))
        if dotted == "operator.attrgetter" and len(args) == 1 and is_const(args[0]) and isinstance(args[0].t[1], str) and "." not in args[0].t[1]:
            return V(("attrgetter", args[0].t[1]), [py("callable")])
        if dotted == "operator.methodcaller" and args and is_const(args[0]) and isinstance(args[0].t[1], str):
            t = ("methodcaller", args[0].t[1], tuple(a.t for a in args[1:]), self.fresh(node))
            self.partials[t] = (list(args[1:]), dict(kwargs))
            return V(t, [py("callable")], self._deps(args))
        if dotted == "collections.namedtuple" and len(args) >= 2 and is_const(args[0]):
            f = args[1]
            fields = None
            if f.t[0] in ("list", "tuple") and all(x[0] == "const" and isinstance(x[1], str) for x in f.t[1]):
                fields = tuple(x[1] for x in f.t[1])
            elif is_const(f) and isinstance(f.t[1], str):
                fields = tuple(f.t[1].replace(",", " ").split())
            if fields is not None:
                return V(("ntcls", args[0].t[1], fields), [py("type")])
        if dotted == "collections.deque" and not kwargs and len(args) <= 1:
            # a double-ended queue is modelled as a list: popleft() = pop(0), appendleft(x) = insert(0, x)
            if not args:
                return V(("list", ()), [py("list")])
            a = args[0]
            if a.t[0] in ("list", "tuple"):
                return V(("list", a.t[1]), [py("list")], a.dep)
            return V(("list", (("star", a.t),)), [py("list")], a.dep)
        spec = T.H5PY_CALLS.get(dotted)
        dep = self._deps(args) | self._deps(list(kwargs.values()))
        self._remember(list(args) + list(kwargs.values()))
        if spec is not None:
            eff, rty = spec
            if eff != "N":
                self.emit(Event("raw", dotted, None, args[0] if args else None, tuple(args),
                                dict(kwargs, **{"__effect__": const(eff)}), site=self.here(node)))
            if dotted in ("h5py.Group", "h5py.File", "h5py.Dataset") and args:
                return V(("h5wrap", dotted, args[0].t) + tuple(sorted((k, v.t) for k, v in kwargs.items())), [rty], dep)
            return V(("call", dotted, tuple(a.t for a in args) + tuple(("kw", k, v.t) for k, v in sorted(kwargs.items())),
                      self.fresh(node)), [rty], dep)
        short = dotted
        ty = ()
        root = dotted.split(".")[0]
        if root in ("np", "numpy"):
            ty = [py("ndarray")]
            if dotted.split(".")[-1] in ("shape",):
                ty = [py("tuple")]
            if dotted.split(".")[-1] in ("isclose", "any", "all", "array_equal", "isscalar"):
                ty = [py("bool")]
        self.emit(Event("ext", dotted, None, args[0] if args else None, tuple(args), kwargs, site=self.here(node)))
        leaf = dotted.split(".")[-1]
        # an external call directly inside a try block with specific handlers may raise what they catch
        fr = self.frames[-1]
        if fr.try_catch:
            for rc in sorted(fr.try_catch[-1]):
                if rc != "*":
                    if leaf == "UUID" and any(x and x[0] == "call" and x[1] == "uuid4" for a in args for x in subterms(a.t)):
                        continue        # TAB: the text of a freshly generated uuid4 always parses
                    if self.decide(("xraise", dotted, tuple(a.t for a in args), rc)):
                        marker = V(("xraise", dotted, tuple(a.t for a in args)), (), dep)
                        fr.ctrl.append((marker, True))
                        try:
                            self.raise_exc(rc, node, explicit=False)
                        finally:
                            fr.ctrl.pop()
        if leaf in ("uuid4",):
            return V(("call", "uuid4", (), self.fresh(node)), [py("uuid")], dep)
        pure = ("call", short, tuple(a.t for a in args) + tuple(("kw", k, v.t) for k, v in sorted(kwargs.items())))
        return V(pure, ty, dep)

    # ---------------------------------------------------------------- builtins
    def call_builtin(self, name, args, kwargs, node):
        dep = self._deps(args)
        if name == "slice" and 1 <= len(args) <= 3 and not kwargs:
            # slice(a, b[, c]) is the same value as the subscript form a:b[:c]
            parts = [NONE, args[0], NONE] if len(args) == 1 else [args[0], args[1], args[2] if len(args) == 3 else NONE]
            self._remember(args)
            return V(("slice",) + tuple(p_.t for p_ in parts), [py("slice")], dep)
        if name == "isinstance":
            return self.bi_isinstance(args[0], args[1], node).with_dep(dep)
        if name == "issubclass":
            return V(("call", "issubclass", tuple(a.t for a in args)), [py("bool")], dep)
        if name == "hasattr":
            return self.bi_hasattr(args[0], args[1]).with_dep(dep)
        if name == "len":
            a = args[0]
            if a.t[0] in ("tuple", "list", "set", "dict", "gen") and not any(x and x[0] == "star" for x in a.t[1]):
                return const(len(a.t[1])).with_dep(dep)
            if is_const(a) and isinstance(a.t[1], (str, bytes, tuple)):
                return const(len(a.t[1])).with_dep(dep)
            for t in self.ty(a):
                if t[0] == "h5":
                    return self.raw_op(a, t[1], "__len__", [], {}, node)
            cname = self.pick_class(a, "__len__", ("methods",))
            if cname is not None:
                f = self.M.lookup(self.M.classes[cname], "__len__")
                if f is not None:
                    if self.is_layer(cname):
                        return self.layer_call(a, cname, f, [], {}, node)
                    return self.call_method(f, a, [], {}, node, cname)
            self._remember([a])
            return V(("call", "len", (a.t,)), [py("int")], dep)
        if name in ("str", "int", "float", "bool", "bytes") and len(args) == 1 and is_const(args[0]):
            try:
                return const({"str": str, "int": int, "float": float, "bool": bool, "bytes": bytes}[name](args[0].t[1])).with_dep(dep)
            except Exception:
                pass
        if name == "bool" and args:
            try:
                return const(self.truth(args[0])).with_dep(dep | frozenset(self.sym(args[0])))
            except Need:
                raise
        if name in ("tuple", "list") and args:
            a = args[0]
            if a.t[0] in ("tuple", "list", "gen"):
                return V((name, a.t[1]), [py(name)] + [t for t in a.ty if t[0] == "elemty"], dep)
            if a.t[0] == "comp":
                return V(a.t, [py(name)] + [t for t in a.ty if t[0] == "elemty"], dep)
            self._remember([a])
            return V(("call", name, (a.t,)), [py(name)] + [t for t in a.ty if t[0] == "elemty"], dep)
        if name in ("tuple", "list", "dict", "set") and not args:
            return V((name, ()), [py(name)])
        if name == "getattr" and len(args) >= 2 and is_const(args[1]):
            return self.getattr_value(args[0], args[1].t[1], node)
        if name == "setattr" and len(args) == 3 and is_const(args[1]):
            self.setattr_value(args[0], args[1].t[1], args[2], node)
            return NONE
        if name == "print":
            return NONE
        if name == "map" and len(args) >= 2:
            el = self.iter_elem(args[1], 0, node)
            fr = self.frames[-1]
            fr.loop.append(("map", getattr(node, "lineno", 0)))
            try:
                r = self.call_value(args[0], [el], {}, node)
            finally:
                fr.loop.pop()
            self._remember([r, args[1]])
            return V(("comp", "map", r.t, (args[1].t,), ()), [py("gen")] + [("elemty", t) for t in r.ty], dep | r.dep)
        if name == "next" and args and args[0].t and args[0].t[0] == "comp" and args[0].t[1] == "gen" and len(args[0].t[3]) == 1:
            # next(<generator expression>[, default]): the first element that passes the conditions, like the body of a
            # search loop with an early return (one element looked at, as loops are unrolled once)
            a = args[0]
            _, _, elt_t, _iters, conds = a.t
            loopid = (self.here(node), self.fresh(node))
            found = self.decide(("iter", loopid, 0))
            if found:
                for c in conds:
                    if not self.truth(V(c, [py("bool")], a.dep)):
                        found = False
                        break
            if found:
                return V(elt_t, [t[1] for t in a.ty if t[0] == "elemty"], dep)
            if len(args) > 1:
                # the default stands for "no element passed the conditions": whatever is decided on it depends on what they test
                from .values import symbols as _symbols
                cdep = set(dep) | set(a.dep)
                for c in conds:
                    cdep |= set(_symbols(c))
                return args[1].with_dep(frozenset(cdep))
            self.raise_exc("StopIteration", node, explicit=False)
        if name in ("zip", "enumerate", "reversed", "sorted", "iter", "filter"):
            self._remember(args)
            return V(("call", name, tuple(a.t for a in args)), [py("gen")], dep)
        if name == "type" and len(args) == 1:
            cl = self.obj_classes(args[0])
            if len(cl) == 1:
                return V(("cls", cl[0]), [clsobj(cl[0])], dep)
        if name == "super":
            raise AnalysisError("bare super() value at %s" % self.here(node))
        self._remember(args)
        ty = {"len": [py("int")], "int": [py("int")], "str": [py("str")], "float": [py("float")], "any": [py("bool")],
              "all": [py("bool")], "sum": [py("int")], "range": [py("gen")], "max": [py("int")], "min": [py("int")],
              "bool": [py("bool")]}.get(name, ())
        kw = tuple(("kw", k, v.t) for k, v in sorted(kwargs.items()))
        return V(("call", name, tuple(a.t for a in args) + kw), ty, dep | self._deps(list(kwargs.values())))

    def class_names_of(self, cv):
        """names of the classes denoted by the 2nd argument of isinstance"""
        t = cv.t
        if t[0] == "tuple":
            out = []
            for x in t[1]:
                out += self.class_names_of(V(x))
            return out
        if t[0] == "cls":
            return [t[1]]
        if t[0] == "ext":
            return ["ext:" + t[1]]
        if t[0] == "builtin":
            return ["py:" + t[1]]
        from . import dtable
        key = "?:" + show(t)
        dtable.ISINST_TERMS[key] = t        # so that a guard evaluation can resolve the class expression on a valuation
        return [key]

    def bi_isinstance(self, a, cv, node):
        names = self.class_names_of(cv)
        exc = [t[1] for t in self.ty(a) if isinstance(t, tuple) and t[0] == "excinst"]
        from .px_core import BUILTIN_EXC_BASES
        if exc and all(n.startswith("py:") or n in self.M.classes or n in BUILTIN_EXC_BASES for n in names):
            # a caught exception of a known class against exception classes
            return const(any(self.exc_is(exc[0], n[3:] if n.startswith("py:") else n) for n in names))
        cl = self.obj_classes(a)
        repo = [n for n in names if n in self.M.classes]
        if cl and all(c in self.M.classes for c in cl):
            if repo and all(any(self.M.is_subclass(c, n) for n in repo) for c in cl):
                return TRUE
            if not any(self.M.is_subclass(c, n) or self.M.is_subclass(n, c) for c in cl for n in repo) and \
                    not any(n.startswith("?:") for n in names):     # a class given by an expression (self._itemclass) is unknown
                ext = [n for n in names if n not in self.M.classes]
                if not ext or not any(self.M.ext_bases(self.M.classes[c]) for c in cl):
                    return FALSE
        if cl and all(c in self.M.classes for c in cl) and not repo and all(n.startswith("py:") for n in names):
            # a repo class instance is an instance of a builtin type only through an external base of that name
            bases = set()
            for c in cl:
                bases |= {b.split(".")[-1] for b in self.M.ext_bases(self.M.classes[c])}
            if not any(n[3:] in bases for n in names):
                return FALSE
        if is_const(a):
            v = a.t[1]
            pymap = {"py:int": int, "py:str": str, "py:float": float, "py:bool": bool, "py:bytes": bytes,
                     "py:list": list, "py:tuple": tuple, "py:type": type}
            if all(n in pymap for n in names):
                return const(isinstance(v, tuple(pymap[n] for n in names)))
            if v is None:
                return FALSE
        if a.t[0] in ("inst", "enum") and not repo:
            pass
        tys = self.ty(a)
        if tys and all(t[0] == "py" for t in tys):
            kinds = {t[1] for t in tys}
            pyk = {"py:int": {"int", "bool"}, "py:str": {"str"}, "py:float": {"float"}, "py:bool": {"bool"},
                   "py:bytes": {"bytes"}, "py:list": {"list"}, "py:tuple": {"tuple"}, "py:dict": {"dict"}}
            simple = {"int", "str", "float", "bool", "bytes", "list", "tuple", "dict"}
            if kinds <= simple:
                if all(n in self.M.classes for n in names):
                    return FALSE
                if all(n in pyk for n in names):
                    hit = [bool(kinds & pyk[n]) for n in names]
                    if len(kinds) == 1:
                        return const(any(hit))
        key = "|".join(sorted(names))
        self._remember([a])
        if len(names) > 1 and all(n in self.M.classes for n in names):
            # a union whose members were already decided one by one
            known = [self.facts.get(("isinst", a.t, n)) for n in names]
            if any(k is True for k in known):
                return TRUE
            if all(k is False for k in known):
                return FALSE
        return V(("isinst", a.t, key), [py("bool")], a.dep)

    def bi_hasattr(self, a, namev):
        if not is_const(namev):
            return V(("call", "hasattr", (a.t, namev.t)), [py("bool")])
        name = namev.t[1]
        cl = [c for c in self.obj_classes(a) if c in self.M.classes]
        if cl:
            res = set()
            for cn in cl:
                c = self.M.classes[cn]
                ok = bool(self.M.lookup(c, name) or self.M.lookup(c, name, "getters") or
                          self.M.lookup_class_attr(c, name) or (a.t, name) in self.heap)
                if not ok and self.instance_has_field(c, name):
                    ok = True
                res.add(ok)
            if len(res) == 1:
                return const(res.pop())
        if a.t[0] == "const":
            return const(hasattr(a.t[1], name))
        return V(("hasattr", a.t, name), [py("bool")], a.dep)

    def instance_has_field(self, c, name):
        for k in self.M.mro(c):
            init = k.methods.get("__init__")
            if init is None:
                continue
            for n in ast.walk(init.node):
                if isinstance(n, ast.Attribute) and isinstance(n.ctx, ast.Store) and n.attr == name and \
                        isinstance(n.value, ast.Name) and n.value.id == init.params[0]:
                    return True
        return False

    # ---------------------------------------------------------------- iteration
    def iter_elem(self, it, k, node):
        """abstract k-th element when iterating over value `it`"""
        t = it.t
        dep = it.dep
        if t[0] in ("tuple", "list", "set", "gen") and k < len(t[1]) and not any(x[0] == "star" for x in t[1]):
            return self.lift(t[1][k], dep)
        if t[0] == "call" and t[1] == "enumerate":
            inner = self.lift(t[2][0], dep)
            el = self.iter_elem(inner, k, node)
            self._remember([el])
            return V(("tuple", (("idx", inner.t, k), el.t)), [py("tuple")], dep)
        if t[0] == "call" and t[1] == "zip":
            els = [self.iter_elem(self.lift(x, dep), k, node) for x in t[2]]
            self._remember(els)
            return V(("tuple", tuple(e.t for e in els)), [py("tuple")], dep)
        if t[0] == "call" and t[1] == "range":
            return V(("idx", t, k), [py("int")], dep)
        if t[0] == "mcall" and t[1] == "items":
            return V(("tuple", (("key", t[2], k), ("val", t[2], k))), [py("tuple")], dep)
        if t[0] == "dict":
            if k < len(t[1]):
                return self.lift(t[1][k][0], dep)
        ety = [x[1] for x in self.ty(it) if x[0] == "elemty"]
        for x in self.ty(it):
            if x == py("ndarray"):
                ety.append(py("ndarray"))
            if x[0] == "h5" and x[1] in ("grp", "file", "obj"):
                ety.append(py("str"))
        return V(("elem", t, k), ety, dep)

    def iterate_value(self, it, node):
        """for loops over repo objects call __iter__ (a generator that is inlined)"""
        for t in self.ty(it):
            if t[0] == "h5":
                self.raw_op(it, t[1], "__iter__", [], {}, node)
                return it
        cname = self.pick_class(it, "__iter__", ("methods",))
        if cname is not None:
            f = self.M.lookup(self.M.classes[cname], "__iter__")
            if f is not None:
                if self.is_layer(cname):
                    return self.layer_call(it, cname, f, [], {}, node)
                return self.call_method(f, it, [], {}, node, cname)
            g = self.M.lookup(self.M.classes[cname], "__getitem__")
            if g is not None and self.M.lookup(self.M.classes[cname], "__len__") is not None:
                # old-style iteration protocol through __len__/__getitem__ (DataSet)
                return V(("seq", it.t), [py("gen")], it.dep)
        return it
