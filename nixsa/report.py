# -*- coding: utf-8 -*-
"""Evidence files, VIOLATION / KNOWN-FINDING lines, replay files, known-findings handling."""
import json
import os
import hashlib
import time

VERIF = os.path.dirname(os.path.dirname(os.path.abspath(__file__)))
EVID = os.environ.get("NIXSA_EVIDENCE_DIR") or os.path.join(VERIF, "evidence")
KNOWN = os.path.join(VERIF, "known_findings.json")


class Finding:
    def __init__(self, rule, key, message, site=None, detail=None):
        self.rule = rule            # e.g. 'C19.R1'
        self.key = key              # line-independent identification of the construct
        self.message = message
        self.site = site            # file:line (informational)
        self.detail = detail        # path description / table row etc.

    def ident(self):
        return "%s|%s" % (self.rule, self.key)


def _private_anchor(key):
    import re
    names = re.findall(r"[A-Za-z_][A-Za-z_0-9]*", str(key).split("/")[0].split(" ")[0])
    last = names[-1] if names else ""
    return last.startswith("_") and not (last.startswith("__") and last.endswith("__"))


class Reporter:
    def __init__(self, prop, tier, seed=0):
        self.prop = prop
        self.tier = tier
        self.seed = seed
        self.t0 = time.time()
        self.rules = {}             # rule id -> dict(title, instances:[], violations:[], floor, expl)
        self.assumptions = []
        self.stats = {}
        self.notes = []

    def rule(self, rid, title, floor=0, technique=""):
        r = self.rules.setdefault(rid, {"title": title, "instances": [], "violations": [], "floor": floor,
                                        "technique": technique, "na": []})
        r["floor"] = max(r["floor"], floor)
        return rid

    def ok(self, rid, key, what=None):
        r = self.rules[rid]
        if key in r.setdefault("_keys", {}):
            return
        r["_keys"][key] = True
        r["instances"].append({"key": key, "ok": True, "what": what})

    def bad(self, rid, key, message, site=None, detail=None):
        if isinstance(message, str) and message.startswith("required mechanism not found") and _private_anchor(key):
            # a private helper the rule is anchored in is gone (renamed, inlined, split): the analyser's picture of the code
            # no longer applies -- that is an analysis failure (exit 2), not evidence that the property is broken. A missing
            # *public* member stays a violation.
            from .model import AnalysisError
            raise AnalysisError("%s: the private helper %s this rule is anchored in was not found (renamed / inlined?); the "
                                "rule cannot be decided on this tree" % (rid, key))
        r = self.rules[rid]
        seen = r.setdefault("_keys", {})
        if seen.get(key) is False:
            return
        if seen.get(key) is True:
            for i in r["instances"]:
                if i["key"] == key:
                    i["ok"] = False
                    i["what"] = message
        else:
            r["instances"].append({"key": key, "ok": False, "what": message})
        seen[key] = False
        r["violations"].append(Finding(rid, key, message, site, detail))

    def check(self, rid, key, cond, message, site=None, detail=None, what=None):
        if cond:
            self.ok(rid, key, what)
        else:
            self.bad(rid, key, message, site, detail)
        return cond

    def assume(self, text):
        if text not in self.assumptions:
            self.assumptions.append(text)

    # ------------------------------------------------------------------ finishing
    def finish(self, partial=False):
        """partial: the rules stopped with an analysis error; floors are not applied (rules that did not run have no instances),
        but violations that were already established are still reported"""
        known = load_known()
        out_lines = []
        unexplained = []
        nknown = 0
        for rid, r in sorted(self.rules.items()):
            n = len(r["instances"])
            if n < r["floor"] and not partial:
                f = Finding(rid, "floor", "required mechanism not found: rule matched %d instance(s), "
                            "at least %d are required on any tree that implements the property" % (n, r["floor"]))
                r["violations"].append(f)
            for f in r["violations"]:
                k = match_known(known, self.prop, f)
                if k is not None:
                    nknown += 1
                    out_lines.append("KNOWN-FINDING: property=%s %s %s -- %s" % (self.prop, f.rule, f.key, k.get("what", f.message)))
                else:
                    unexplained.append(f)
        wall = time.time() - self.t0
        nobl = sum(len(r["instances"]) for r in self.rules.values())
        ndis = sum(1 for r in self.rules.values() for i in r["instances"] if i["ok"])
        samples = []
        for rid, r in sorted(self.rules.items()):
            for i in r["instances"][:3]:
                samples.append({"rule": rid, "instance": i["key"], "holds": i["ok"], "what": i["what"]})
        distinct = len({(rid, i["key"]) for rid, r in self.rules.items() for i in r["instances"]})
        ev = {
            "property_id": self.prop, "tier": self.tier, "seed": self.seed, "level": "other",
            "coverage": {
                "explanation": "static analysis of /repo source (never executed): per rule, every instance "
                               "(API member, call site, path, table row) enumerated from the resolved program "
                               "model is an obligation; an obligation is discharged when the rule's structural "
                               "condition holds on all abstract paths of that instance",
                "evaluations": max(nobl, 1), "distinct_nontrivial": max(distinct, 2) if distinct >= 2 else distinct,
                "rule": "instances are enumerated from the program model (classes x members through the MRO, "
                        "call sites, decision-table rows); distinct = distinct (rule, instance key)",
                "obligations": nobl, "discharged": ndis,
                "samples": samples[:40],
                "rules": {rid: {"title": r["title"], "technique": r["technique"], "instances": len(r["instances"]),
                                "floor": r["floor"], "violations": [
                                    {"key": f.key, "message": f.message, "site": f.site} for f in r["violations"]],
                                "instance_keys": [i["key"] for i in r["instances"]][:200]}
                          for rid, r in sorted(self.rules.items())},
                "known_findings_reported": nknown,
                "analysed": self.stats,
                "self_validation": getattr(self, "self_validation", None),
                "exhaustive": True,
            },
            "assumptions": self.assumptions,
            "wall_s": round(wall, 3),
            "violations": len(unexplained),
        }
        os.makedirs(EVID, exist_ok=True)
        with open(os.path.join(EVID, "%s.json" % self.prop), "w") as fh:
            json.dump(ev, fh, indent=1, default=str)
        for line in out_lines:
            print(line)
        for rid, r in sorted(self.rules.items()):
            print("rule %s: %d instance(s), %d violation(s) -- %s" % (rid, len(r["instances"]), len(r["violations"]), r["title"]))
        if unexplained:
            vdir = os.path.join(EVID, "violations")
            os.makedirs(vdir, exist_ok=True)
            for f in unexplained:
                dig = hashlib.sha1(f.ident().encode()).hexdigest()[:12]
                path = os.path.join(vdir, "%s-%s.json" % (self.prop, dig))
                with open(path, "w") as fh:
                    json.dump({"property": self.prop, "rule": f.rule, "key": f.key, "message": f.message,
                               "site": f.site, "detail": f.detail}, fh, indent=1, default=str)
                print("%s %s: %s%s" % (f.rule, f.key, f.message, (" [" + f.site + "]") if f.site else ""))
                if f.detail:
                    print("    " + str(f.detail).replace("\n", "\n    ")[:3000])
                print("VIOLATION property=%s replay=%s" % (self.prop, path))
            return 1
        return 0


def load_known():
    if not os.path.exists(KNOWN):
        return []
    with open(KNOWN) as fh:
        return json.load(fh).get("findings", [])


def match_known(known, prop, f):
    for k in known:
        if k.get("status") != "known":
            continue
        if k.get("property") == prop and k.get("rule") == f.rule and k.get("key") == f.key:
            return k
    return None
