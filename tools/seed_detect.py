#!/usr/bin/env python3
"""Apply a seeded change to /repo, run the quick checks, undo the change; record which checks report it.
usage: seed_detect.py /verif/seeded/<id> [check ids ... | all]"""
import json, os, subprocess, sys, re
from concurrent.futures import ThreadPoolExecutor

VERIF = os.path.dirname(os.path.dirname(os.path.abspath(__file__)))


def sh(cmd, cwd=None):
    r = subprocess.run(cmd, shell=True, cwd=cwd, stdout=subprocess.PIPE, stderr=subprocess.STDOUT)
    return r.returncode, r.stdout.decode(errors="replace")


def record(d, ids, res):
    fired = sorted(p for p, r in res.items() if r["exit"] == 1)
    errs = sorted(p for p, r in res.items() if r["exit"] not in (0, 1))
    mp = os.path.join(d, "meta.json")
    meta = json.load(open(mp)) if os.path.exists(mp) else {}
    meta["detection"] = {"checks_run": ids, "fired": fired, "analysis_errors": errs,
                         "detail": {p: res[p] for p in fired + errs}}
    json.dump(meta, open(mp, "w"), indent=1)
    print(os.path.basename(d), "fired:", fired, "errors:", errs)
    return fired, errs


def scratch(d, ids):
    """same, on a scratch copy of /repo/nixio (NIXSA_REPO) instead of /repo's working tree: can run in parallel"""
    import tempfile, shutil
    man = json.load(open(os.path.join(VERIF, "MANIFEST.json")))
    if not ids or ids == ["all"]:
        ids = [c["property_id"] for c in man["checks"]]
    tmp = tempfile.mkdtemp(prefix="sd-")
    try:
        shutil.copytree(os.path.join(os.environ.get("BD_SRC", "/repo"), "nixio"), os.path.join(tmp, "nixio"))
        rc, out = sh("git apply --whitespace=nowarn %s/patch.diff" % d, cwd=tmp)
        if rc:
            print(os.path.basename(d), "patch does not apply: " + out[-300:])
            return 2

        def run(pid):
            env = "NIXSA_REPO=%s NIXSA_EVIDENCE_DIR=%s/ev-%s NIXSA_CACHE_DIR=%s/cache" % (tmp, tmp, pid, tmp)
            rc, out = sh("%s ./check %s --tier quick" % (env, pid), cwd=VERIF)
            lines = [l for l in out.splitlines() if l.startswith("VIOLATION") or l.startswith("ANALYSIS-ERROR")]
            firstmsg = [l for l in out.splitlines() if re.match(r"^C\d+\.R\w+ ", l)][:3]
            return pid, {"exit": rc, "lines": [l.replace(tmp, "<scratch>") for l in lines[:4]], "messages": [m[:300] for m in firstmsg]}
        res = {}
        first = "C11" if "C11" in ids else ids[0]
        res[first] = run(first)[1]          # fills the scratch copy's call-graph cache for the others
        ids_rest = [i for i in ids if i != first]
        with ThreadPoolExecutor(int(os.environ.get("JOBS", "5"))) as ex:
            for pid, r in ex.map(run, ids_rest):
                res[pid] = r
        record(d, ids, res)
        return 0
    finally:
        shutil.rmtree(tmp, ignore_errors=True)


def main():
    d = os.path.abspath(sys.argv[1])
    ids = [a for a in sys.argv[2:] if a != "--scratch"]
    if "--scratch" in sys.argv:
        return scratch(d, ids)
    man = json.load(open(os.path.join(VERIF, "MANIFEST.json")))
    claimed = [c["property_id"] for c in man["checks"]]
    if not ids or ids == ["all"]:
        ids = claimed
    rc, out = sh("git -C /repo status --porcelain")
    if out.strip():
        print("refusing: /repo is not clean:\n" + out); return 2
    rc, out = sh("git -C /repo apply --whitespace=nowarn %s/patch.diff" % d)
    if rc:
        rc, out = sh("git -C /repo apply --3way --whitespace=nowarn %s/patch.diff" % d)
        if rc:
            print("patch does not apply: " + out[-300:]); sh("git -C /repo checkout -q -- ."); return 2
    res = {}
    try:
        def run(pid):
            rc, out = sh("./check %s --tier quick" % pid, cwd=VERIF)
            lines = [l for l in out.splitlines() if l.startswith("VIOLATION") or l.startswith("ANALYSIS-ERROR")]
            rules = sorted(set(re.findall(r"^(C\d+\.R\w+) ", out, re.M)) & set(
                m for m in re.findall(r"^(C\d+\.R\w+) [^\n]*\n(?:    [^\n]*\n)*VIOLATION", out, re.M)))
            firstmsg = [l for l in out.splitlines() if re.match(r"^C\d+\.R\w+ ", l)][:3]
            return pid, {"exit": rc, "lines": lines[:4], "messages": [m[:300] for m in firstmsg]}
        with ThreadPoolExecutor(8) as ex:
            for pid, r in ex.map(run, ids):
                res[pid] = r
    finally:
        sh("git -C /repo reset -q; git -C /repo checkout -q -- .")
    rc, out = sh("git -C /repo status --porcelain")
    assert not out.strip(), out
    fired = sorted(p for p, r in res.items() if r["exit"] == 1)
    errs = sorted(p for p, r in res.items() if r["exit"] not in (0, 1))
    mp = os.path.join(d, "meta.json")
    meta = json.load(open(mp)) if os.path.exists(mp) else {}
    meta["detection"] = {"checks_run": ids, "fired": fired, "analysis_errors": errs,
                         "detail": {p: res[p] for p in fired + errs}}
    json.dump(meta, open(mp, "w"), indent=1)
    print(os.path.basename(d), "fired:", fired, "errors:", errs)
    for p in fired + errs:
        for m in res[p]["messages"][:2] + res[p]["lines"][:1]:
            print("    ", m[:260])
    return 0


if __name__ == "__main__":
    sys.exit(main())
