#!/usr/bin/env python3
"""debug aid: abstract paths of one member.  usage: NIXSA_REPO=<dir> tools/pxdump.py Class member [methods|setters|getters] [--events] [--max N]"""
import sys, os
sys.path.insert(0, os.path.dirname(os.path.dirname(os.path.abspath(__file__))))
from nixsa.model import Model
from nixsa.values import show
from rules.common import Ctx
a = [x for x in sys.argv[1:] if not x.startswith("--") and not x.isdigit()]
M = Model()
ctx = Ctx(M)
f = ctx.member(a[0], a[1], a[2] if len(a) > 2 else "methods")
if "--raw" in sys.argv:
    from nixsa.px import explore, Config
    cfg = Config(M, mode="raw"); cfg.compose = False
    ps = explore(cfg, f, a[0], None, 20000)
else:
    ps = ctx.paths(f, a[0])
print(len(ps), "paths")
mx = int(sys.argv[sys.argv.index("--max") + 1]) if "--max" in sys.argv else 40
for p in ps[:mx]:
    print("PATH", "normal" if p.normal else "raise", show(p.terminal[1].t)[:120] if p.normal and p.terminal[1] is not None else getattr(p.terminal[1], "cls", None))
    for at, v in p.decisions:
        print("   D", show(at)[:200], "=", v)
    if "--events" in sys.argv:
        for e in p.events:
            print("   E", e.idx, e.kind, e.op, show(e.key.t)[:60] if e.key is not None else "", [show(x.t)[:80] for x in e.args][:3])
