#!/bin/sh
# usage: tools/regress_benign.sh <glob under benign/> [jobs]   -- all 20 quick checks on a scratch copy per refactoring, N at a time
cd "$(dirname "$0")/.." || exit 2
ls -d benign/$1 | xargs -P ${2:-3} -I{} sh -c 'JOBS=6 /venv/bin/python tools/benign_detect.py {} 2>&1 | tail -4'
