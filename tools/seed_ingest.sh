#!/bin/sh
# copy finished sub-agent results /tmp/wt/<ID>-out/mN into /verif/seeded/<ID>-mN (no overwrite)
for o in /tmp/wt/C*-out; do
  id=$(basename $o | sed 's/-out//')
  for m in $o/m*; do
    [ -f $m/patch.diff ] && [ -f $m/demo.py ] || continue
    d=/verif/seeded/$id-$(basename $m)
    [ -d $d ] && continue
    mkdir -p $d && cp $m/patch.diff $m/demo.py $d/ && cp $m/notes.txt $d/ 2>/dev/null
    echo "{\"property\": \"$id\", \"source\": \"independent sub-agent given only the property text and a scratch worktree\"}" > $d/meta.json
    echo ingested $d
  done
done
