#!/bin/sh
# usage: tools/ingest_benign.sh /tmp/benout/Cxx-bN -- copy into benign/, confirm the equivalence demo on both trees, run all 20 quick checks on a scratch copy
src=$1; id=$(basename $src); d=/verif/benign/$id
[ -f $src/patch.diff ] && [ -f $src/demo.py ] || { echo "$id incomplete"; exit 2; }
mkdir -p $d && cp $src/patch.diff $src/demo.py $d/ && cp $src/notes.txt $d/ 2>/dev/null
t=$(mktemp -d); cp -r /repo/nixio $t/
(cd $t && git apply --whitespace=nowarn $d/patch.diff) || { echo "$id PATCH-DOES-NOT-APPLY"; rm -rf $t; exit 2; }
(cd $t && PYTHONPATH=$t PYTHONDONTWRITEBYTECODE=1 timeout 300 /venv/bin/python $d/demo.py >/dev/null 2>&1); a=$?
(cd /tmp && PYTHONPATH=/repo PYTHONDONTWRITEBYTECODE=1 timeout 300 /venv/bin/python $d/demo.py >/dev/null 2>&1); b=$?
rm -rf $t
echo "$id demo: refactored=$a untouched=$b"
JOBS=${JOBS:-8} /venv/bin/python /verif/tools/benign_detect.py $d
/venv/bin/python - $d $a $b <<'P'
import json,sys
d,a,b=sys.argv[1:4]
m=json.load(open(d+'/meta.json')); m['demo_exit']={'refactored':int(a),'untouched':int(b)}; m['batch']=4
json.dump(m,open(d+'/meta.json','w'),indent=1)
print(d.split('/')[-1], 'ALARMS' if m.get('alarms') else 'silent', {k:v['messages'][:1] for k,v in m.get('alarms',{}).items()})
P
