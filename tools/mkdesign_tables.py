#!/usr/bin/env python3
"""regenerates the machine-written parts of DESIGN.md (between <!-- BEGIN x --> / <!-- END x --> markers) from the
evidence files, the seeded-change metadata and the known-findings file"""
import json, os, glob, re
root = os.path.dirname(os.path.dirname(os.path.abspath(__file__)))


def rules_table():
    out = ["| rule | instances | what is decided | technique |", "|---|---|---|---|"]
    for f in sorted(glob.glob(os.path.join(root, "evidence", "C*.json"))):
        ev = json.load(open(f))
        for rid, r in sorted(ev["coverage"]["rules"].items(), key=lambda kv: [int(x) if x.isdigit() else x for x in re.split(r"(\d+)", kv[0])]):
            out.append("| %s | %d | %s | %s |" % (rid, r["instances"], r["title"].replace("|", "/"), (r.get("technique") or "").replace("|", "/")))
    return "\n".join(out)


def seeds_table():
    out = ["| seeded change | property | what it does (sub-agent's note, abridged) | confirmed | reported by (quick checks that exit 1) |", "|---|---|---|---|---|"]
    for d in sorted(glob.glob(os.path.join(root, "seeded", "C*"))):
        m = json.load(open(os.path.join(d, "meta.json")))
        notes = ""
        np_ = os.path.join(d, "notes.txt")
        if os.path.exists(np_):
            notes = " ".join(open(np_).read().split())[:170]
        det = m.get("detection", {})
        fired = ", ".join(det.get("fired", [])) or "**none**"
        rules = set()
        for p, r in det.get("detail", {}).items():
            for msg in r.get("messages", []):
                mm = re.match(r"^(C\d+\.R\w+)", msg)
                if mm:
                    rules.add(mm.group(1))
        if rules:
            fired += " (" + ", ".join(sorted(rules)) + ")"
        if det.get("analysis_errors"):
            fired += "; analysis error in " + ", ".join(det["analysis_errors"])
        out.append("| %s | %s | %s | %s | %s |" % (os.path.basename(d), m.get("property"), notes.replace("|", "/"),
                                                  "yes" if m.get("verification", {}).get("confirmed") else "NO", fired))
    return "\n".join(out)


def benign_table():
    out = ["| refactoring | what it does (sub-agent's note, abridged) | quick checks silent | alarms |", "|---|---|---|---|"]
    for d in sorted(glob.glob(os.path.join(root, "benign", "C*"))):
        mp = os.path.join(d, "meta.json")
        if not os.path.exists(mp):
            continue
        m = json.load(open(mp))
        notes = ""
        np_ = os.path.join(d, "notes.txt")
        if os.path.exists(np_):
            notes = " ".join(open(np_).read().split())[:150]
        al = m.get("alarms", {})
        out.append("| %s | %s | %d | %s |" % (os.path.basename(d), notes.replace("|", "/"), len(m.get("silent", [])),
                                             ", ".join("%s (exit %s)" % (k, v.get("exit")) for k, v in sorted(al.items())) or "none"))
    return "\n".join(out)


def findings_table():
    k = json.load(open(os.path.join(root, "known_findings.json")))["findings"]
    out = ["| status | property / rule | construct (key) | what fails | repo commit |", "|---|---|---|---|---|"]
    seen = set()
    for f in k:
        sig = (f["status"], f["property"], f.get("design"), f["what"][:60])
        if sig in seen:
            continue
        seen.add(sig)
        out.append("| %s | %s / %s | `%s` | %s | %s |" % (f["status"], f["property"], f["rule"], f["key"].replace("|", "/"),
                                                       f["what"].replace("|", "/"), f.get("commit", "")))
    return "\n".join(out)


def main():
    p = os.path.join(root, "DESIGN.md")
    s = open(p).read()
    for name, fn in (("RULES", rules_table), ("SEEDS", seeds_table), ("FINDINGS", findings_table), ("BENIGN", benign_table)):
        b, e = "<!-- BEGIN %s -->" % name, "<!-- END %s -->" % name
        if b in s and e in s:
            s = s[:s.index(b) + len(b)] + "\n" + fn() + "\n" + s[s.index(e):]
    open(p, "w").write(s)


if __name__ == "__main__":
    main()
