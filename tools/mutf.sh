#!/bin/sh
# usage: tools/mutf.sh <file below nixio/> <old text> <new text> <check id>...  -- one textual edit on a scratch copy, then the checks
d=$(mktemp -d); cp -r ${BD_SRC:-/repo}/nixio $d/
/venv/bin/python - "$d/nixio/$1" "$2" "$3" <<'PY' || { rm -rf $d; exit 2; }
import sys
p,old,new=sys.argv[1:4]
s=open(p).read(); assert s.count(old)>=1, "text not found"; s=s.replace(old,new,1); open(p,'w').write(s)
PY
shift 3
for c in "$@"; do NIXSA_REPO=$d NIXSA_EVIDENCE_DIR=$d/ev /verif/check $c 2>&1 | grep "^C[0-9][0-9]\.\|ANALYSIS" | cut -c1-250 | head -3; done
rm -rf $d; echo ---
