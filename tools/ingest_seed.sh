#!/bin/sh
# usage: tools/ingest_seed.sh /tmp/seedout/Cxx-mN <wave>  -- copy into seeded/, confirm independently, run all 20 quick checks on a scratch copy
src=$1; id=$(basename $src); d=/verif/seeded/$id; pid=${id%%-*}
[ -f $src/patch.diff ] && [ -f $src/demo.py ] || { echo "$id incomplete"; exit 2; }
mkdir -p $d && cp $src/patch.diff $src/demo.py $d/ && cp $src/notes.txt $d/ 2>/dev/null
/venv/bin/python - "$d" "$pid" "$2" <<'P'
import json,sys,os,re
d,pid,wave=sys.argv[1:4]
t=open(d+'/notes.txt').read() if os.path.exists(d+'/notes.txt') else ''
m=re.search(r'Needed to manifest:(.*?)(?:\n\s*\n|\Z)',t,re.S)
meta={"property":pid,"wave":int(wave),"source":"independent sub-agent given only the property text, a scratch worktree and a list of ideas already used",
      "needs_to_manifest":(m.group(1).strip().replace('\n',' ')[:600] if m else "")}
json.dump(meta,open(d+'/meta.json','w'),indent=1)
P
/venv/bin/python /verif/tools/seed_verify.py $d || exit 1
JOBS=4 /venv/bin/python /verif/tools/seed_detect.py $d all --scratch
