#!/usr/bin/env python3
import json, os, sys
sys.path.insert(0, os.path.dirname(os.path.abspath(__file__)))
import registry as R
root = os.path.dirname(os.path.dirname(os.path.abspath(__file__)))
props = [json.loads(l)["id"] for l in open(os.path.join(root, "properties.jsonl"))]
checks = []
for pid in props:
    if pid in R.CLAIMS:
        c = R.CLAIMS[pid]
        checks.append({
            "property_id": pid, "quick_cmd": "./check %s --tier quick" % pid,
            "thorough_cmd": "./check %s --tier thorough" % pid,
            "evidence_file": "/verif/evidence/%s.json" % pid,
            "replay_cmd_template": "./check %s --replay {path}" % pid, "engine": "nixsa",
            "level_claimed": {"category": "other", "text": c["text"], "design_ref": c["design_ref"]},
            "level_note": c["note"], "technique": c["technique"]})
na = []
for pid in props:
    if pid not in R.CLAIMS:
        na.append({"property_id": pid, "reason": R.NA.get(pid, "static rules for this property are not built yet; "
                   "it is not claimed until its check runs end-to-end (see DESIGN.md build order)")})
m = {"version": 1, "setup_cmd": "true",
     "hooks": {"guard": "G_NODE_NIXPY_VERIF", "enable": "no hooks: the analyser only reads /repo source files",
               "baseline_off_cmd": "cd /repo && /venv/bin/python -m pytest -ra -q -p no:cacheprovider --timeout=900 --continue-on-collection-errors",
               "source_commits": [], "add_only": True},
     "engines": [{"name": "nixsa", "path": "/verif/nixsa", "serves_properties": sorted(R.CLAIMS),
                  "kind_free_text": "repo-specific static analyser: program model + path-sensitive abstract interpreter "
                                    "(PX) over Python ASTs, decision-table extraction, resolved call graph, regex grammar analysis"}],
     "checks": checks,
     "notes": "All checks are static analyses of /repo's current working tree (never executed). Exit 0 = rules hold, "
              "1 = VIOLATION line, 2 = ANALYSIS-ERROR (the analyser could not classify a construct).",
     "not_applicable": na}
json.dump(m, open(os.path.join(root, "MANIFEST.json"), "w"), indent=1)
print("claimed:", sorted(R.CLAIMS), "n/a:", len(na))
