#!/usr/bin/env python3
"""Confirm a seeded change independently: in a fresh scratch worktree of /repo HEAD the patch applies, the
demonstration fails with it and passes without it, and the repository's test suite gives the baseline result.
usage: seed_verify.py /verif/seeded/<id>  [--no-suite]"""
import json, os, subprocess, sys, shutil, tempfile, re

BASE_FAIL = {"test_untagged_feature", "test_spike_features", "test_tagged_feature", "test_tagging_example"}


def sh(cmd, cwd=None, env=None, timeout=1800):
    r = subprocess.run(cmd, shell=True, cwd=cwd, env=env, stdout=subprocess.PIPE, stderr=subprocess.STDOUT, timeout=timeout)
    return r.returncode, r.stdout.decode(errors="replace")


def main():
    d = os.path.abspath(sys.argv[1])
    suite = "--no-suite" not in sys.argv
    wt = tempfile.mkdtemp(prefix="sv-", dir="/tmp")
    os.rmdir(wt)
    rc, out = sh("git -C /repo worktree add -q --detach %s HEAD" % wt)
    if rc:
        print(out); return 2
    res = {}
    try:
        env = dict(os.environ, PYTHONPATH=wt, PYTHONDONTWRITEBYTECODE="1")
        rc, out = sh("git apply --whitespace=nowarn %s/patch.diff" % d, cwd=wt)
        res["applies"] = rc == 0
        if rc:
            rc, out2 = sh("git apply --3way --whitespace=nowarn %s/patch.diff" % d, cwd=wt)
            res["applies_3way"] = rc == 0
            if rc:
                res["apply_error"] = (out + out2)[-400:]
                print(json.dumps(res, indent=1)); return 1
        rc, out = sh("/venv/bin/python -c 'import nixio; print(nixio.__file__)'", cwd=wt, env=env)
        assert wt in out, out
        rc, out = sh("/venv/bin/python %s/demo.py" % d, cwd=wt, env=env, timeout=600)
        res["demo_with_change_exit"] = rc
        res["demo_with_change_tail"] = out[-300:]
        if suite:
            rc, out = sh("/venv/bin/python -m pytest -q -p no:cacheprovider -n 6 nixio/test 2>&1 | tail -12", cwd=wt, env=env)
            failed = set(re.findall(r"FAILED \S+::(\w+)", out))
            res["suite_failed"] = sorted(failed)
            res["suite_matches_baseline"] = failed == BASE_FAIL and " passed" in out
            res["suite_tail"] = out[-200:]
        sh("git checkout -q -- . && git clean -fdq", cwd=wt)
        rc, out = sh("/venv/bin/python %s/demo.py" % d, cwd=wt, env=env, timeout=600)
        res["demo_without_change_exit"] = rc
        if rc:
            res["demo_without_change_tail"] = out[-300:]
    finally:
        sh("git -C /repo worktree remove --force %s" % wt)
        shutil.rmtree(wt, ignore_errors=True)
    ok = res.get("demo_with_change_exit", 0) != 0 and res.get("demo_without_change_exit", 1) == 0 and \
        (not suite or res.get("suite_matches_baseline"))
    res["confirmed"] = bool(ok)
    mp = os.path.join(d, "meta.json")
    meta = json.load(open(mp)) if os.path.exists(mp) else {}
    meta["verification"] = res
    json.dump(meta, open(mp, "w"), indent=1)
    print(os.path.basename(d), "CONFIRMED" if ok else "NOT-CONFIRMED", json.dumps({k: v for k, v in res.items() if "tail" not in k}))
    return 0 if ok else 1


if __name__ == "__main__":
    sys.exit(main())
