#!/usr/bin/env python3
"""Run every quick check against a scratch copy of /repo/nixio with a BEHAVIOUR-PRESERVING patch applied; every check
must stay silent (exit 0). /repo is not touched.
usage: benign_detect.py <dir with patch.diff> [ids...]   -> writes <dir>/meta.json {"silent": [...], "alarms": {...}}"""
import json, os, subprocess, sys, shutil, tempfile
from concurrent.futures import ThreadPoolExecutor

VERIF = os.path.dirname(os.path.dirname(os.path.abspath(__file__)))


def main():
    d = os.path.abspath(sys.argv[1])
    ids = sys.argv[2:] or ["C%02d" % i for i in range(1, 21)]
    tmp = tempfile.mkdtemp(prefix="bd-")
    try:
        shutil.copytree(os.path.join(os.environ.get("BD_SRC", "/repo"), "nixio"), os.path.join(tmp, "nixio"))
        r = subprocess.run(["git", "apply", "--whitespace=nowarn", os.path.join(d, "patch.diff")], cwd=tmp, capture_output=True, text=True)
        if r.returncode:
            print(os.path.basename(d), "PATCH-DOES-NOT-APPLY", r.stderr[-200:])
            return 2

        def one(pid):
            env = dict(os.environ, NIXSA_REPO=tmp, NIXSA_EVIDENCE_DIR=os.path.join(tmp, "ev-" + pid), PYTHONDONTWRITEBYTECODE="1",
                       NIXSA_CACHE_DIR=os.path.join(tmp, "cache"))
            p = subprocess.run([os.path.join(VERIF, "check"), pid], cwd=VERIF, env=env, capture_output=True, text=True)
            lines = [l[:300] for l in (p.stdout + p.stderr).splitlines() if l.startswith(pid + ".") or "ANALYSIS-ERROR" in l or l.startswith("Traceback")]
            return pid, p.returncode, lines[:4]

        first = [one("C11" if "C11" in ids else ids[0])]      # fills the scratch copy's call-graph cache for the others
        with ThreadPoolExecutor(int(os.environ.get("JOBS", "10"))) as ex:
            res = first + list(ex.map(one, [i for i in ids if i != first[0][0]]))
        alarms = {pid: {"exit": rc, "messages": msgs} for pid, rc, msgs in res if rc != 0}
        meta = {"kind": "benign", "silent": [pid for pid, rc, _ in res if rc == 0], "alarms": alarms}
        mp = os.path.join(d, "meta.json")
        old = json.load(open(mp)) if os.path.exists(mp) else {}
        if len(ids) < 20 and "silent" in old:
            # a partial re-run: keep the verdicts of the checks that were not run again
            keep_s = [p_ for p_ in old.get("silent", []) if p_ not in ids]
            keep_a = {p_: v_ for p_, v_ in old.get("alarms", {}).items() if p_ not in ids}
            meta["silent"] = sorted(set(keep_s) | set(meta["silent"]))
            keep_a.update(meta["alarms"])
            meta["alarms"] = keep_a
        old.update(meta)
        json.dump(old, open(mp, "w"), indent=1)
        print(os.path.basename(d), "SILENT" if not alarms else "ALARM " + json.dumps(alarms)[:1500])
        return 0 if not alarms else 1
    finally:
        shutil.rmtree(tmp, ignore_errors=True)


if __name__ == "__main__":
    sys.exit(main())
