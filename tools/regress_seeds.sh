#!/bin/sh
# usage: tools/regress_seeds.sh <glob under seeded/> [jobs]  -- the check of the seed's own property on a scratch copy with the change applied
cd "$(dirname "$0")/.." || exit 2
ls -d seeded/$1 | xargs -P ${2:-6} -I{} sh -c 'id=$(basename {}); pid=${id%%-*}; out=$(BD_SRC=/repo tools/try_seed.sh $(pwd)/{} $pid 2>&1 | head -1 | cut -c1-160); echo "$id :: $out"'
