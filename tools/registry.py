# -*- coding: utf-8 -*-
"""Per-property registration data used to generate MANIFEST.json (tools/mkmanifest.py)."""

COMMON_NOTE = ("Trusted base: the analyser itself (program model, PX path-sensitive abstract interpreter, tables in "
               "nixsa/tables.py), Python's ast module, and the stated semantics of h5py/HDF5/NumPy calls (classification "
               "tables). The repository code is never executed. Decided are necessary structural conditions of the "
               "property (see level text); clauses that quantify over run-time values are NOT decided.")

CLAIMS = {}
NA = {}


def claim(pid, text, technique, design_ref, note=COMMON_NOTE):
    CLAIMS[pid] = dict(text=text, technique=technique, design_ref=design_ref, note=note)


def na(pid, reason):
    NA[pid] = reason


claim("C11",
      "Static decision of the gating logic for ALL version triples and modes: the complete decision tables of "
      "can_read/can_write/_check_header/map_file_mode are extracted from the source (every abstract path) and compared "
      "cell by cell with the table written from the statement (27 orderings x 3 modes x format tag x id validity); "
      "File.__init__'s (exists, mode) -> refuse/create+truncate/open(flag) decision and the single-gate rule (only "
      "File.__init__ opens HDF5 files) are checked on all paths. "
      "ALSO: no handler around a mutating h5py operation in the hdf5 layer goes on without raising (the refusal of a write on a read-only file is not swallowed); container lookups keep no per-session table (reads are the same in every mode). "
      "NOT decided: that libhdf5 refuses every write under "
      "ACC_RDONLY, byte identity of a read-only file.",
      "decision-table extraction by path-sensitive abstract interpretation (ast), exhaustive comparison with spec table; "
      "who-may-call over resolved call graph", "DESIGN.md#c11")
claim("C19",
      "Static decision, on every abstract path of every named setter (35 class x attribute instances) and of every "
      "mutating API member (~200): a write is followed by a stamp of the entity's own updated_at iff the auto-update "
      "switch was tested true; no unguarded stamp outside creation/force_*; created_at is written only by creation / "
      "force_created_at; the two time conversion functions agree on format and epoch. "
      "ALSO: force_updated_at / force_created_at write the clock (no time given) or the given time and nothing read from the file; File.__init__ stamps created_at / updated_at only on a path that found the key absent from the header. "
      "NOT decided: monotonicity under a "
      "real clock, value round trip of forced timestamps beyond format agreement.",
      "path-sensitive interprocedural abstract interpretation over the AST (must-follow / guarded-by on all paths), "
      "resolved call graph prefilter", "DESIGN.md#c19")

claim("C07",
      "Static decision of the position->index logic: the complete decision tables of the three index_of methods are "
      "extracted from the source (every abstract path, guards as symbolic atoms) and compared with the table written "
      "from the statement over a region abstraction (before/at first/on/between(low,mid,high)/after last sample x 3 modes x "
      "offsets incl. negative and none x intervals x tick vectors incl. repeated/single ticks x label counts incl. none; "
      "567 cells); SliceMode->IndexMode map; the three range_indices return None exactly on a failed lookup or "
      "start>end and otherwise (start, end) obtained with GreaterOrEqual / Less|LessOrEqual; every result-relevant "
      "guard of the sampled dimension depends on position, offset and interval. Guards are evaluated on one "
      "representative per region (the extracted guards, never repository code). The conversions read ticks/labels through the accessors (linked values when linked); range_indices answers 'empty' only after a failed lookup or after comparing the two lookup results; descriptors keep nothing read from the file. "
      "ALSO: the returned expression of SampledDimension.position_at, evaluated on an (offset, interval, index) grid down to intervals of 4e-11 and fed back into the extracted table of index_of, gives the index again; tick vectors with spacing below any default floating-point tolerance are among the representatives. "
      "NOT decided: behaviour for reals "
      "outside the region representatives beyond what the guards' structure implies, np.isclose tolerance effects, "
      "position_at/axis inverse pair.",
      "decision-table extraction by path-sensitive abstract interpretation; region-exhaustive comparison with a spec "
      "table; dependency slice of guards", "DESIGN.md#c07")
claim("C09",
      "Static decision: scaling's decision table (all abstract paths) compared with the SI oracle for all 21x21 prefix "
      "pairs x 4 powers (1764 cells); PREFIXES/PREFIX_FACTORS/SI table agreement; regex grammar analysis of every "
      "compiled unit pattern whose match groups are consumed (alternative shadowing under nullable un-anchored "
      "tails), anchoring of is_atomic; refusal iff not scalable; idempotence of the sanitizer's rewrite system "
      "(extracted from the AST) exhaustively over its alphabet up to length 5. NOT decided: floating-point exactness "
      "of factor ratios, recognition of arbitrary compound strings.",
      "decision-table extraction; regex AST (re._parser) analysis; rewrite-system extraction + bounded exhaustive check",
      "DESIGN.md#c09")

claim("C02",
      "Static decision that nixio keeps no state of its own between the API and HDF5 (necessary for close/reopen "
      "equivalence): for all 63 accessor pairs, on every abstract path, the setter/deleter writes storage (or found "
      "nothing to delete) and the getter reads every storage location (receiver, key) the setter writes; getters of "
      "persistent attributes read storage on every path (no cached values); the hdf5 layer's attribute contract "
      "(None deletes, else the value is stored under the given name) is checked on the layer's own decision table; "
      "File.close/__exit__ reach h5py close on all normal paths; container classes never store to self outside "
      "__init__; the layer never modifies an attribute in place and never unlinks a container group as a whole; removing an optional link never removes the entity that carried it; no accessor (190 getters) creates a storage group; a created property holds the values it was given on every creating path. "
      "ALSO: File.close / __exit__ write nothing to the file; container members fill no table reachable from the container or its file with what they read. "
      "NOT decided: equality of the complete observable state before/after reopen, value encodings.",
      "path-sensitive abstract interpretation of every accessor (storage-key extraction, must-write / must-read on all "
      "paths)", "DESIGN.md#c02")
claim("C12",
      "Static decision for every public creating/mutating API member (about 180, resolved through the MRO, through "
      "all resolved callees): no abstract path on which an observable storage write precedes a refusal whose guard "
      "depends on the call's arguments; every such (API, first write, refusal) triple is either triaged as infeasible "
      "/ rolled back with a reason (triage/c12.json) or is a recorded defect; the inventory of pre-write argument "
      "refusals (176 API x exception-class pairs) must not shrink; the rollback handler of create_multi_tag deletes "
      "exactly what was created. Loops are unrolled twice for small members. create_data_array refuses a shape/data mismatch, create_property a mixed value list, before creating anything. Findings are keyed by (API member, first write op:key, exception class). NOT decided: failures raised inside "
      "h5py/NumPy after a write (no raise statement in the source).",
      "interprocedural path-sensitive abstract interpretation (event order + taint of the refusing guard); frozen "
      "refusal inventory", "DESIGN.md#c12")
claim("C17",
      "The property itself (everything written survives SIGKILL after flush/close) is a property of libhdf5 and the "
      "OS and is NOT decided. Decided statically are its necessary conditions inside nixio: File.flush reaches "
      "h5py File.flush on the file's own handle on every normal path; File.close reaches h5py File.close on every "
      "normal path; nixio has no write-back layer (all 63 setters are write-through on every path, containers hold "
      "no state); nothing is written after the last flush on the closing path; the HDF5 property-list operations of the "
      "open path are classified for durability.", "must-pass-through on all abstract paths; shared write-through rules of C02", "DESIGN.md#c17")

claim("C03",
      "Static decision, on every abstract path of the 13 public creators (create_* and copy variants): the creation "
      "of the named entity is preceded by a name-only membership test (the hdf5 layer's __contains__, not the "
      "id-or-name dispatching container test) of that very name on the very group the entity is created in, decided "
      "negative; invalid names/empty types never reach a storage write; every entity_id written on any path of any "
      "API member comes from uuid4 or from an oid that passed is_uuid (the layer's copy re-ids with uuid4); every "
      "HDF5 group/file creation requests creation-order tracking+indexing and positional access iterates the "
      "creation-order index increasing; the id-or-name dispatchers are checked for a fall-back to the name when the "
      "id search misses (known finding D10: they have none); containers answer every lookup from the file (nothing enumerated is remembered) and decide membership of an entity by its id; the name check accepts every legal name of a representative set (leading dots, id-like, long, non-ASCII) and refuses empty names and names with a slash; the id lookup returns only a child whose stored id was compared equal. NOT decided: uniqueness of uuid4 values, agreement of "
      "all lookup paths as sequences at run time.",
      "must-precede / value-provenance on all abstract paths (path-sensitive abstract interpretation); raw h5py "
      "event arguments; decision tables of the dispatchers", "DESIGN.md#c03")
claim("C04",
      "Static decision on every abstract path: entity deletion (the three entity containers' __delitem__) ends in a "
      "delete_all on the FILE ROOT group whose id list derives from the item's id and, for sections/sources, from "
      "the item's whole subtree; link-list deletion never reaches delete_all and unlinks only in the list's own "
      "group; every role-link unlink on an entity's own group (13 API members) passes delete_if_empty=False (the "
      "default removes the owner); delete_all unlinks exactly the children whose entity_id is in the id list, "
      "walking everything below its receiver; wrong-kind refusals precede any deletion. "
      "ALSO: every owning container class of the package (subclasses of Container outside the link-list family) deletes only the id of a member looked up in that container or of an entity object of its kind. "
      "NOT decided: that every "
      "link kind present in a concrete file is reachable by the HDF5 walk.",
      "must-end-in / event-absence / argument-value checks on all abstract paths; guard dependency of the unlink",
      "DESIGN.md#c04")

claim("C05",
      "Static decision on every abstract path: each link creation of the three link creators (LinkContainer.append, "
      "SourceLinkContainer.append, Feature.data setter) follows a positive membership decision about the very object "
      "linked, taken in the owning block's container (sources: id search over the block's source tree), the negative "
      "decision ends in a refusal without a link, and every link list an entity hands out is built on the owning "
      "block's container of the same item class; membership of an entity in a container depends on its id; "
      "H5Group.create_link stores the target's own HDF5 group (hard link), HDF5 object copy occurs only in "
      "H5Group.copy, no soft/external links; ticks/link typestate of range dimensions (after the ticks setter no "
      "link, after link_* no explicit ticks, old link removed first); linked range/set dimensions read ticks/unit/"
      "label/labels through the link under the keys the linked object's own accessors use, write unit/label through "
      "it, and refuse label writes. NOT decided: that a change made through one path is visible through all others "
      "(HDF5 hard-link semantics), DimensionLink.values indexing.",
      "must-precede / guard-to-returned-term correspondence on all abstract paths (path-sensitive abstract "
      "interpretation); abstract storage state at exits; raw h5py event arguments; who-may-call", "DESIGN.md#c05")
claim("C13",
      "Static decision: on every abstract path of the two tree finders nodes leave the work queue at its head and "
      "enter at its tail, the children of a node at level L are enqueued iff L+1 <= limit (root entity level 0, "
      "children of a file/block level 1), the filter is applied once per dequeued node and the node is returned iff "
      "it holds; the two finders have identical abstract path sets under sections<->sources; the public find_* "
      "wrappers pass the given limit unless it is None by identity; Section.parent / Source.parent_source / "
      "_find_parent_recursive return the candidate whose child container was found to contain the entity itself "
      "(or its id), by an identity-based membership test; every referring_<kind> iterates the containers of that "
      "kind and selects by this entity's id / source membership, referring_objects is the union of the family, and "
      "the family covers every class that can hold the link, over the whole source tree. NOT decided: order and "
      "multiplicity of results as run-time values on concrete trees.",
      "event order and guards on all abstract paths (path-sensitive abstract interpretation); clone comparison of "
      "abstract path sets; structure of comprehension terms; model completeness", "DESIGN.md#c13")

claim("C15",
      "Static decision on every abstract path: in every read member of arrays and views each read of an array's "
      "\"data\" dataset happens inside the calibrating override DataArray._read_data, and no other function of the "
      "package reads that dataset; reading never writes storage and the calibration setters write only their own "
      "keys; the array modified in place is a fresh copy made in the same call and is what is returned; decision "
      "table over (coefficients present, origin truthy): calibrate iff either, a calibrated read is the conversion "
      "to double of the raw read, an uncalibrated one is the raw read unconverted; the origin is subtracted before "
      "numpy.polynomial.polynomial.polyval(data, coefficients) (ascending coefficients); the calibration attributes "
      "are read from storage on every read (no per-handle memory). "
      "ALSO: the coefficients are written with the double-precision element type; a read returns raw values only on a path that found the coefficients absent and the origin unset. "
      "NOT decided: the numeric result, commutation of "
      "slicing and calibration as values.",
      "stack/ordering of storage events and guard tables on all abstract paths (path-sensitive abstract "
      "interpretation); who-may-read over the resolved call graph; stateless-handle classification", "DESIGN.md#c15")

claim("C06",
      "Static decision: the complete decision table of the view coordinate transformation is extracted from the "
      "source (every abstract path) and its guards and result terms are evaluated on representatives -- windows x "
      "integer indices -6..6 x ~680 slices (start/stop on both sides of the window, steps 1..3, negative steps) -- and "
      "compared with Python/NumPy index semantics: integers outside the window are refused, every accepted index "
      "selects exactly the NumPy selection shifted into the window, never an element outside it; ellipsis/padding "
      "expansion equals NumPy's for ranks 1..4; window validity table of DataView.__init__ (given, non-empty, rank, "
      "stop <= extent); the read and write side agree on 'no index' by identity with None; an invalid view reads empty "
      "and refuses writes before touching storage; HDF5 subscript ValueError/TypeError surface as IndexError; only "
      "0-dimensional read results are reshaped to one element; a view keeps nothing it has read. "
      "ALSO: indexed reads and assignments of arrays never change the extent. "
      "NOT decided: h5py's "
      "own handling of the transformed index, fancy (list/array) indices, value equality with NumPy on real data.",
      "decision-table extraction by path-sensitive abstract interpretation; evaluation of the extracted guards on "
      "representatives against Python slice semantics; sibling comparison; stateless-handle classification",
      "DESIGN.md#c06")

claim("C10",
      "Static decision: on every abstract path of the values setter and extend_values no storage write precedes a type "
      "refusal (TypeError/ValueError); every accepting path of the value type check compares with the property's "
      "stored type and, for lists, checks every element; the decision table of DataType.get_dtype is evaluated on "
      "representatives of the type lattice (bool/np.bool_ -> Bool before Integral -> Int64 before Real -> Double, "
      "str -> String, everything else refused); extend_values enlarges to old+new and writes into [old : old+new] "
      "after the resize, the values setter resizes to the shape of the new list before writing it, delete_values "
      "resizes to 0; the Section dictionary protocol (len, del, in, items, [], []=) delegates to the property and "
      "subsection containers as stated; Section/Property keep no per-handle tables. "
      "ALSO: the type compared with the property's stored type is the new values' own type, and no accepting path found them different (no silent conversion of 'castable' arrays). "
      "NOT decided: the values and types "
      "read back from HDF5 (NumPy/h5py conversions).",
      "event order / guard presence on all abstract paths; decision-table extraction evaluated on the type lattice; "
      "event arguments; stateless-handle classification", "DESIGN.md#c10")

claim("C16",
      "Static decision: every numpy/h5py attribute chain the package mentions exists in the installed library "
      "(existence probed in the repository's interpreter; a bogus control attribute must be reported missing on every "
      "run); the duplicate-name test precedes data-frame creation; in every data-frame reader/writer, parameters that "
      "are indices or names are compared with None by identity, never tested by truthiness; no storage write precedes "
      "an explicit argument refusal in append_column/append_rows/write_column/write_rows/write_cell; no entity code "
      "creates HDF5 objects through the raw h5py handle (only the hdf5 layer creates, so data sets stay chunked and "
      "resizable); write_rows passes rows and indices through unpermuted, write_cell writes back the row it read, "
      "write_column writes row i at index i; schema accessors derive from the stored compound type; the data-frame "
      "read path keeps no look-aside tables whose key does not determine the value. NOT decided: cell values and "
      "types read back, NumPy structured-array conversions.",
      "AST attribute-chain collection + existence probe (linkage); decision atoms / event order / argument provenance "
      "on all abstract paths; resolved call graph who-may-create; stateless-handle classification", "DESIGN.md#c16")

claim("C20",
      "Static decision on every abstract path of the 8 copying API members: a wrong-kind source and an existing name at "
      "the destination are refused before anything is written -- the existing-name test is a name-only membership test of "
      "the effective new name on the very group the copy is created in; exactly one HDF5 object copy per call, to which "
      "the supplied name, the source path and the id policy are passed unchanged; afterwards the copy is addressed by its "
      "effective new name in the destination container (never by the source's name or an id the original may share); "
      "the children flag decides whether the section copy is shallow; inside the hdf5 layer's copy: keep_id true writes "
      "no id, keep_id false gives the root a fresh uuid4 and re-ids every nested object that carries an entity_id "
      "(whatever its HDF5 kind), the name attribute is rewritten to the new name; every numpy/h5py attribute on the "
      "copy path exists in the installed library. NOT decided: completeness and independence of the HDF5 object copy "
      "itself, links among copied entities.",
      "must-precede / argument and key provenance on all abstract paths (path-sensitive abstract interpretation); raw "
      "h5py events under the keep_id decision; AST attribute-chain collection + existence probe", "DESIGN.md#c20")

claim("C14",
      "Static decision: the complete decision tables of check_entity, check_sampled_dimension, check_range_dimension, "
      "check_data_array, check_tag and check_multi_tag are extracted from the source (every abstract path) and their "
      "guards evaluated on ~650 enumerated scenarios (small objects covering the cases of the catalogue: present/"
      "missing/zero/negative values, counts on both sides of every compared length, strictly/weakly/un-sorted ticks, SI "
      "and non-SI units, 0..2 references of differing rank); on each scenario the set of catalogue messages in the "
      "returned error list must equal the set the statement requires (count mismatches two-sided, ticks strictly "
      "increasing, ...). check_file visits every container kind (source and section trees recursively) and files the "
      "results of check_<kind>(v) under v with errors and warnings in their places; nothing appended or returned by a "
      "helper is dropped on the way to the returned lists; every catalogued inconsistency has a message produced below "
      "check_file; the unit-compatibility helper goes on to the next reference after a compatible one. NOT decided: "
      "absence of errors on every well-formed file (depends on the unit grammar, C09), validator behaviour on objects "
      "whose accessors raise.",
      "decision-table extraction by path-sensitive abstract interpretation + evaluation of the extracted guards on "
      "enumerated scenarios against a catalogue oracle; abstract paths of check_file with pinned loop decisions for the traversal; returned-term membership", "DESIGN.md#c14")

claim("C18",
      "Static decision on nixio/cmd/upgrade.py, every abstract path: for a file older than the library collect_tasks "
      "runs every step's own inspection of the file, schedules each conversion exactly when that inspection found work "
      "(never depending on another step), and appends the version bump exactly once and last; an up-to-date file gets "
      "an empty task list; process_tasks calls the tasks in list order once each; only the version task writes the "
      "format version; every conversion closure re-inspects its object before its first write and has a skipping path; "
      "the alias-dimension conversion creates the link with id, type, index and the hard link to the parent array "
      "before it deletes the alias link, after which the collector's predicate is false; the property conversion reads "
      "all eight old fields and each one reaches what is written (unless found empty), replaces the dataset under the "
      "same name, and chooses between keeping all per-value extras or a single one by exact comparison. "
      "ALSO: in every conversion closure, what one file session (the events between two opens of the file) writes of an old record was read in that same session once the record has been replaced (no old-record data carried in memory across sessions: resumable per record). "
      "NOT decided: "
      "content equality before/after on real files, behaviour of an interruption inside one HDF5 call.",
      "returned-list / scheduling decisions, must-precede and read-to-write data flow on all abstract paths (raw h5py "
      "mode of the path-sensitive abstract interpreter); who-may-write over the resolved call graph", "DESIGN.md#c18")

claim("C08",
      "Static decision: the complete decision table of the per-dimension slice computation (_calc_data_slices with the "
      "unit scaling helper inlined) is extracted from the source and evaluated on 720 enumerated scenarios (dimension "
      "kind x dimension unit x tag unit x position present/absent x extent positive/zero/negative/missing/shorter x "
      "both stop rules x answer/no answer of the dimension): what is asked of the dimension must be start = position * "
      "factor, stop = start + extent * factor with the requested stop rule iff the extent is positive (else inclusive at "
      "the exact position), an answer (a, b) must become slice(a, b + 1), no answer no data, a dimension beyond the "
      "position the whole axis, unconvertible unit combinations a refusal; multi-tags take position and extent rows with "
      "the same index and pass the stop rule on; feature data for every LinkType member (tagged: region under a bounds "
      "refusal; indexed on a multi-tag: entry [i : i+1], rest whole; untagged: whole); the four entry points build "
      "their views from the referenced array and the computed slices after the bounds logic; the bounds test table; and "
      "-- shared with C07.R1/R3 and C09.R1 -- the dimension answers by order exactly and the unit factor is the SI "
      "ratio. NOT decided: the numeric selection on real data beyond these tables (floating point, h5py reads).",
      "decision-table extraction by path-sensitive abstract interpretation + evaluation of the extracted guards and "
      "result terms on enumerated scenarios; argument provenance; enum exhaustiveness", "DESIGN.md#c08")

claim("C01",
      "The element-wise round trip through NumPy/h5py/HDF5 is "
      "ALSO: indexed reads and assignments never change the array's extent. "
      "NOT decided. Decided statically, on every abstract path, "
      "are the storage layout and plumbing every write/read path relies on: compression -- conditional-constant "
      "propagation of the Compression enum through the five links (File.__init__: Auto -> No; File.create_block: Auto -> "
      "the file's; Block.create_data_array: Auto -> the block's; DataArray.create_new: filter flag iff DeflateNormal; "
      "H5DataSet.__init__: gzip iff flag), so the effective setting is the first non-Auto of (array, block, file) and "
      "only switches the gzip filter; creation invariants at the single dataset-creation site (maxshape None on every "
      "axis of shape, chunked, given shape, given dtype except String -> variable-length text; no other creator); "
      "append: both shape refusals precede the enlargement, which precedes the write, every normal path does both, and "
      "the per-axis table of the hyperslab (appended axis: region [old : old + added]; other axes: [0 : extent]); "
      "a[index] / a[index] = v / write_direct / create_data_array(data=) pass index and value through unchanged and "
      "unswapped; writer, dtype reader and read conversion agree on the text type; array handles keep nothing about "
      "the data set; the hdf5 layer decides 'no region given' by identity with None (index 0 is a region); the array "
      "classes never transfer element values through the raw h5py object; a shape argument that differs from the "
      "data's shape is refused before the array is created (exact, no broadcasting).",
      "conditional-constant propagation / argument provenance / event order on all abstract paths (path-sensitive "
      "abstract interpretation, raw h5py mode for the layer); who-may-create over the call graph", "DESIGN.md#c01")
