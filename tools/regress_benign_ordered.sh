#!/bin/sh
# newest refactorings first: benign/*-b11, -b10, -b9 ... -b1; all 20 quick checks on a scratch copy each
cd "$(dirname "$0")/.." || exit 2
for k in 11 10 9 8 7 6 5 4 3 2 1; do ls -d benign/C*-b$k; done | xargs -P ${1:-6} -I{} sh -c 'JOBS=4 /venv/bin/python tools/benign_detect.py {} 2>&1 | tail -1 | cut -c1-400'
