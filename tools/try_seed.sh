#!/bin/sh
# usage: tools/try_seed.sh <seeded dir> <check id>...   -- runs checks against a scratch copy of /repo/nixio with the seeded patch applied
d=$(mktemp -d); cp -r ${BD_SRC:-/repo}/nixio $d/
(cd $d && git apply --whitespace=nowarn "$1/patch.diff") || { echo "patch does not apply"; rm -rf $d; exit 2; }
shift
for c in "$@"; do NIXSA_REPO=$d NIXSA_EVIDENCE_DIR=$d/ev /verif/check $c 2>&1 | grep "^C[0-9][0-9]\.\|ANALYSIS\|^VIOLATION" | cut -c1-240 | head -3; done
rm -rf $d
