# -*- coding: utf-8 -*-
"""
C07 -- position -> index conversion of the three dimension descriptors. Decided statically:
 R1  the complete decision tables of SampledDimension / RangeDimension / SetDimension.index_of are extracted
     (all abstract paths) and compared, cell by cell over a region abstraction (position before / on / between /
     after samples  x  mode  x  offset sign), with the table written from the statement
 R2  SliceMode -> IndexMode map (Exclusive -> Less, Inclusive -> LessOrEqual), start lookups use GreaterOrEqual
 R3  shape of the three range_indices: IndexError of a lookup -> None, start > end -> None, else (start, end)
 R4  every IndexError-relevant guard of SampledDimension.index_of depends on position AND offset AND interval
"""
import math
from .common import Ctx, describe_path
from nixsa.model import AnalysisError
from nixsa.px import explore
from nixsa.layer import layer_config
from nixsa.dtable import TermEval, NOTHING, select, outcome, unique_outcome, Unknown
from nixsa.values import V, subterms, show, is_const, py, params_of, symbols

MODES = ("Less", "LessOrEqual", "GreaterOrEqual")


def close(a, b):
    return math.isclose(a, b, rel_tol=1e-5, abs_tol=1e-8)


# ---- oracles written from the statement -------------------------------------------------------------
def spec_sampled(pos, offset, interval, mode):
    """samples at offset + k*interval, k = 0, 1, 2, ... (unbounded)"""
    x = (pos - offset) / interval
    n = round(x)
    on = close(x, n)
    if mode == "LessOrEqual":
        k = n if on else math.floor(x)
    elif mode == "Less":
        k = n - 1 if on else math.floor(x)
    else:
        k = n if on else math.ceil(x)
        return ("return", max(int(k), 0))
    if k < 0:
        return ("raise", "IndexError")
    return ("return", int(k))


def spec_ticks(pos, ticks, mode):
    if mode == "LessOrEqual":
        c = [i for i, t in enumerate(ticks) if t <= pos]
        return ("return", c[-1]) if c else ("raise", "IndexError")
    if mode == "Less":
        c = [i for i, t in enumerate(ticks) if t < pos]
        return ("return", c[-1]) if c else ("raise", "IndexError")
    c = [i for i, t in enumerate(ticks) if t >= pos]
    return ("return", c[0]) if c else ("raise", "IndexError")


def spec_set(pos, n, mode):
    """category samples at 0..n-1 (n == 0: unbounded, no labels stored)"""
    idx = list(range(n)) if n else None
    k0 = round(pos)
    on = close(pos, k0)
    if mode == "LessOrEqual":
        k = k0 if on else math.floor(pos)
    elif mode == "Less":
        k = k0 - 1 if on else math.floor(pos)
    else:
        k = k0 if on else math.ceil(pos)
        k = max(int(k), 0)
        if idx is not None and k > n - 1:
            return ("raise", "IndexError")
        return ("return", k)
    if k < 0:
        return ("raise", "IndexError")
    if idx is not None and k > n - 1:
        k = n - 1
    return ("return", int(k))


def norm(out):
    if out[0] == "return":
        try:
            return ("return", int(out[1]))
        except Exception:
            return out
    if out[0] == "raise" and out[1] in ("IndexError", "OutOfBounds"):
        return ("raise", "IndexError")
    return out


def eval_rows(paths, te, what):
    """outcome of the extracted table on a valuation; an IndexError while evaluating the *returned expression*
    (empty numpy selection) counts as the table's IndexError row"""
    rows = select(paths, te, what)
    if not rows:
        raise AnalysisError("decision table of %s has no row for a representative valuation" % what)
    outs = set()
    for p in rows:
        try:
            outs.add(norm(outcome(p, te)))
        except IndexError:
            outs.add(("raise", "IndexError"))
    if len(outs) != 1:
        raise AnalysisError("decision table of %s is ambiguous: %s" % (what, sorted(map(str, outs))))
    return outs.pop(), rows[0]


def mk_eval(values, mode=None, selfenum=None):
    def leaf(t):
        if t[0] == "param" and t[1] in values:
            return values[t[1]]
        if t[0] == "given" and t[1] in values:
            return values[t[1]]
        if t[0] == "rd" and t[1] == "attr" and t[3][0] == "const" and t[3][1] in values:
            return values[t[3][1]]
        if t == ("param", "mode") and mode is not None:
            return mode
        if t == ("self",) and selfenum is not None:
            return selfenum
        return NOTHING
    return TermEval(leaf)


def run(M, rep, tier, only=None):
    cfg = layer_config(M)
    cfg.compose = False
    R1 = rep.rule("C07.R1", "index_of decision tables (3 descriptors) vs the statement, all regions x modes", floor=300,
                  technique="decision-table extraction (all abstract paths) + region-exhaustive comparison with spec table")
    R2 = rep.rule("C07.R2", "SliceMode -> IndexMode map", floor=2, technique="decision table")
    R3 = rep.rule("C07.R3", "range_indices shape: lookup failure/empty -> None, else (start, end) with the right modes", floor=3,
                  technique="all abstract paths with index_of kept symbolic")
    R4 = rep.rule("C07.R4", "guards of SampledDimension.index_of depend on position, offset and interval", floor=1,
                  technique="dependency slice of every decided guard")
    alias, order, _ = M.enum_members("IndexMode")
    for m in MODES:
        if m not in order:
            raise AnalysisError("IndexMode.%s not found" % m)

    def mode_val(m):
        return ("enum", "IndexMode", m)

    # ------------------------------------------------------------------ R1 sampled
    sd = M.classes.get("SampledDimension")
    f = M.lookup(sd, "index_of") if sd else None
    if f is None:
        rep.bad(R1, "SampledDimension.index_of", "required mechanism not found")
    else:
        paths = explore(cfg, f, "SampledDimension", None, 5000)
        rep.stats["sampled_rows"] = len(paths)
        grid = [(offset, interval) for offset in (None, 0.0, -3.0, 2.5, 10.0) for interval in (0.5, 1.0, 2.0)]
        # fractional intervals (positions of samples are not exactly representable: 0.3 / 0.1 = 2.9999999999999996) and a
        # large offset / interval ratio (a relative tolerance must apply to the sample index, not to the raw position)
        grid += [(None, 0.1), (0.0, 0.05), (1000.0, 0.01), (250000.0, 0.05), (-1000.0, 0.01)]
        if tier == "thorough":
            grid += [(o_, i_) for o_ in (None, 0.3, -0.7, 12.5, 1e5, -1e5) for i_ in (0.001, 0.02, 0.3, 1.0 / 3, 7.0, 1.0 / 30000)]
        for offset, interval in grid:
                o = offset or 0.0
                pts = {"before": o - 1.3 * interval, "first": o, "on": o + 3 * interval,
                       "between-low": o + 3.3 * interval, "between-mid": o + 3.5 * interval,
                       "between-high": o + 3.7 * interval, "zero": 0.0, "just-before": o - 0.4 * interval,
                       "first-gap": o + 0.4 * interval}
                if interval < 0.5:
                    for k in ((3, 7, 43, 57) if tier != "thorough" else tuple(range(1, 60, 2))):
                        pts["sample-%d" % k] = k * interval + o          # what position_at(k) returns
                        pts["third-%d" % k] = o + (k + 1.0 / 3) * interval
                    if abs(o) > 100:
                        pts.pop("zero")                                  # far outside: before the first sample anyway
                for pname, pos in pts.items():
                    for m in MODES:
                        te = mk_eval({"position": pos, "offset": offset, "sampling_interval": interval}, mode_val(m))
                        got, row = eval_rows(paths, te, "SampledDimension.index_of")
                        want = spec_sampled(pos, o, interval, m)
                        key = "sampled/offset=%s/interval=%s/%s/%s" % (offset, interval, pname, m)
                        rep.check(R1, key, got == want,
                                  "SampledDimension.index_of(position=%s, mode=%s) with offset=%s, interval=%s yields %s; "
                                  "the statement requires %s" % (pos, m, offset, interval, got, want),
                                  site=f.file + ":%d" % f.node.lineno, detail=describe_path(row))

    # ------------------------------------------------------------------ R1 range
    rd = M.classes.get("RangeDimension")
    f = M.lookup(rd, "index_of") if rd else None
    if f is None:
        rep.bad(R1, "RangeDimension.index_of", "required mechanism not found")
    else:
        paths = explore(cfg, f, "RangeDimension", {"ticks": V(("given", "ticks"), [py("tuple")])}, 5000)
        rep.assume("NumPy raises IndexError when an empty selection is indexed (np.where(...)[0][-1])")
        # (the last two vectors: ticks closer together than any floating-point tolerance a comparison might use -- exact order decides)
        for ticks in ((1.0, 2.0, 4.0, 8.0), (5.0,), (-2.0, -1.0, 0.0), (1.0, 1.0, 2.0, 2.0),
                      (0.0, 2e-9, 4e-9, 6e-9, 8e-9), (400000.0, 400000.5, 400001.0, 400001.5)):
            pts = {"before": ticks[0] - 1, "first": ticks[0], "last": ticks[-1], "after": ticks[-1] + 1,
                   "between": (ticks[0] + ticks[-1]) / 2.0 + 0.01, "inner": ticks[len(ticks) // 2]}
            for pname, pos in pts.items():
                for m in MODES:
                    te = mk_eval({"position": pos, "ticks": tuple(ticks)}, mode_val(m))
                    got, row = eval_rows(paths, te, "RangeDimension.index_of")
                    want = spec_ticks(pos, ticks, m)
                    key = "range/ticks=%s/%s/%s" % (list(ticks), pname, m)
                    rep.check(R1, key, got == want,
                              "RangeDimension.index_of(%s, %s) on ticks %s yields %s; the statement requires %s" % (
                                  pos, m, list(ticks), got, want), site=f.file + ":%d" % f.node.lineno,
                              detail=describe_path(row))

    # ------------------------------------------------------------------ R1 set
    st = M.classes.get("SetDimension")
    f = M.lookup(st, "index_of") if st else None
    if f is None:
        rep.bad(R1, "SetDimension.index_of", "required mechanism not found")
    else:
        paths = explore(cfg, f, "SetDimension", {"dim_labels": V(("given", "dim_labels"), [py("tuple")])}, 5000)
        for n in (0, 1, 4):
            labels = tuple("l%d" % i for i in range(n))
            for pos in (-1.0, -0.4, 0.0, 0.4, 1.0, 2.0, 2.5, 3.0, 3.4, 5.0):
                for m in MODES:
                    te = mk_eval({"position": pos, "dim_labels": labels}, mode_val(m))
                    got, row = eval_rows(paths, te, "SetDimension.index_of")
                    want = spec_set(pos, n, m)
                    key = "set/n=%d/pos=%s/%s" % (n, pos, m)
                    rep.check(R1, key, got == want,
                              "SetDimension.index_of(%s, %s) with %d labels yields %s; the statement requires %s" % (
                                  pos, m, n, got, want), site=f.file + ":%d" % f.node.lineno, detail=describe_path(row))

    # ------------------------------------------------------------------ R2
    sm = M.classes.get("SliceMode")
    f = M.lookup(sm, "to_index_mode") if sm else None
    want = {"Exclusive": "Less", "Inclusive": "LessOrEqual"}
    if f is None:
        rep.bad(R2, "SliceMode.to_index_mode", "required mechanism not found")
    else:
        paths = explore(cfg, f, "SliceMode", None, 100)
        for sname, iname in want.items():
            te = mk_eval({}, selfenum=("enum", "SliceMode", sname))
            got, row = unique_outcome(paths, te, "SliceMode.to_index_mode")
            rep.check(R2, sname, got == ("return", ("enum", "IndexMode", iname)),
                      "SliceMode.%s maps to %s, required IndexMode.%s" % (sname, got, iname), site=f.file + ":%d" % f.node.lineno)

    # ------------------------------------------------------------------ R3
    for cname in ("SampledDimension", "RangeDimension", "SetDimension"):
        c = M.classes.get(cname)
        f = M.lookup(c, "range_indices") if c else None
        io = M.lookup(c, "index_of") if c else None
        key = cname + ".range_indices"
        if f is None or io is None:
            rep.bad(R3, key, "required mechanism not found")
            continue
        cfg3 = layer_config(M, opaque={io.qual: ("py", "int")})
        cfg3.compose = False
        extra = {}
        paths = explore(cfg3, f, cname, None, 20000)
        bad = None
        okrows = 0
        for p in paths:
            calls = [e for e in p.events if e.kind == "ocall" and e.op == io.qual]
            smode = None
            for a, v in p.decisions:
                if a[0] == "eq" and a[1] == ("param", "mode") and a[2][0] == "enum" and v:
                    smode = a[2][2]
            raised = [a for a, v in p.decisions if a[0] == "oraise" and v]
            if p.terminal[0] == "raise":
                x = p.terminal[1]
                if x.cls == "IndexError" and x.func and x.func.endswith("index_of"):
                    bad = (p, "an IndexError of index_of escapes range_indices instead of yielding an empty result")
                    break
                continue
            rt = p.terminal[1].t
            if raised:
                if rt != ("const", None):
                    bad = (p, "a failing index lookup does not yield the empty result None")
                    break
                continue
            if len(calls) < 2:
                if rt[0] == "tuple":
                    bad = (p, "a range is returned without both index lookups")
                    break
                if rt == ("const", None):
                    bad = (p, "the interval is reported empty although no index lookup failed (%d of 2 lookups made): 'empty' must mean "
                              "that no sample lies in the interval" % len(calls))
                    break
                continue
            cs, ce = calls[0], calls[1]

            def arg(ev, name, pos):
                if name in ev.kw:
                    return ev.kw[name]
                return ev.args[pos] if len(ev.args) > pos else None
            ps_, pe_ = arg(cs, "position", 0), arg(ce, "position", 0)
            ms_, me_ = arg(cs, "mode", 1), arg(ce, "mode", 1)
            if rt == ("const", None):
                # must be the start > end row: decided by comparing the two lookup results
                res = {("call", c_.op) for c_ in (cs, ce)}
                gt = [(a, v) for a, v in p.decisions if a[0] == "ord" and all(
                    any(x and x[0] == "call" and x[1] == io.qual for x in subterms(sd_)) for sd_ in (a[1], a[2]))]
                if not gt:
                    bad = (p, "the interval is reported empty after two successful lookups without comparing start and end index")
                    break
                continue
            if rt[0] != "tuple" or len(rt[1]) != 2:
                bad = (p, "unexpected result %s" % show(rt))
                break
            if "start_position" not in params_of(ps_.t) or "end_position" not in params_of(pe_.t):
                bad = (p, "the start lookup must use start_position and the end lookup end_position")
                break
            if ms_ is None or ms_.t != ("enum", "IndexMode", "GreaterOrEqual"):
                bad = (p, "the start lookup must use IndexMode.GreaterOrEqual (got %s)" % (show(ms_.t) if ms_ is not None else None))
                break
            wantm = {"Exclusive": "Less", "Inclusive": "LessOrEqual"}.get(smode)
            if wantm is None or me_ is None or me_.t != ("enum", "IndexMode", wantm):
                bad = (p, "for SliceMode.%s the end lookup must use IndexMode.%s (got %s)" % (
                    smode, wantm, show(me_.t) if me_ is not None else None))
                break
            # returned tuple is (start result, end result) in that order, and start > end was excluded
            tstart, tend = rt[1]
            ordd = [(a, v) for a, v in p.decisions if a[0] == "ord" and {a[1], a[2]} == {tstart, tend}]
            if not ordd:
                bad = (p, "a range is returned without comparing start and end index")
                break
            a, v = ordd[-1]
            rel = v if a[1] == tstart else {"<": ">", ">": "<", "=": "="}[v]
            if rel == ">":
                bad = (p, "start index > end index is returned as a range")
                break
            sfirst = [e for e in (cs, ce)]
            if not (show(tstart).startswith(cs.op) or cs.op in show(tstart)):
                pass
            okrows += 1
        if bad:
            rep.bad(R3, key, bad[1], site=f.file + ":%d" % f.node.lineno, detail=describe_path(bad[0]))
        elif okrows < 2:
            rep.bad(R3, key, "range_indices never returns a (start, end) pair for both slice modes", site=f.file)
        else:
            # the None rows: every path with start > end must return None
            for p in paths:
                if p.terminal[0] == "return" and p.terminal[1].t[0] == "tuple":
                    continue
            rep.ok(R3, key, "%d rows return (start, end)" % okrows)

    # ------------------------------------------------------------------ R4
    f = M.lookup(sd, "index_of") if sd else None
    if f is not None:
        paths = explore(cfg, f, "SampledDimension", None, 5000)
        bad = None
        need = {"position", "offset", "sampling_interval"}
        for p in paths:
            relevant = p.terminal[0] == "raise" and p.terminal[1].cls in ("IndexError", "OutOfBounds") or \
                (p.terminal[0] == "return")
            if not relevant:
                continue
            need_p = set(need)
            for a, v in p.decisions:
                if a[0] == "truthy" and a[1][0] == "rd" and a[1][3] == ("const", "offset") and not v:
                    need_p.discard("offset")       # no offset stored: it is 0 on this path
            for a, v in p.decisions:
                if a[0] not in ("ord", "truthy", "eq"):
                    continue
                terms = a[1:]
                names = set()
                mentions_pos = False
                for t in terms:
                    if not isinstance(t, tuple):
                        continue
                    for x in subterms(t):
                        if x and x[0] == "param" and x[1] == "position":
                            mentions_pos = True
                            names.add("position")
                        if x and x[0] == "rd" and x[1] == "attr" and x[3][0] == "const":
                            names.add(x[3][1])
                if mentions_pos and not need_p <= names:
                    bad = (p, a, need_p - names)
                    break
            if bad:
                break
        if bad:
            rep.bad(R4, "SampledDimension.index_of", "a guard that decides the result tests the raw position without %s: %s" % (
                "/".join(sorted(bad[2])), show(bad[1])[:200]), site=f.file + ":%d" % f.node.lineno, detail=describe_path(bad[0]))
        else:
            rep.ok(R4, "SampledDimension.index_of")

    # ---- R6: a dimension descriptor answers from the file, not from what an earlier call saw
    # ---- R7: position-of-index is exactly offset + index * interval (the value index_of maps back to the index): no rounding to a
    # fixed number of decimals, no tolerance -- whatever the interval's magnitude
    R7 = rep.rule("C07.R7", "index_of(position_at(i)) = i for sampled dimensions of any interval magnitude", floor=20,
                  technique="returned expression of every abstract path evaluated on an (offset, interval, index) grid incl. sub-nanosecond intervals")
    sdc = M.classes.get("SampledDimension")
    pa = M.lookup(sdc, "position_at") if sdc else None
    if pa is None:
        rep.bad(R7, "SampledDimension.position_at", "required mechanism not found")
    else:
        ppaths = explore(cfg, pa, "SampledDimension", None, 2000)
        io_f = M.lookup(sdc, "index_of")
        io_paths = explore(cfg, io_f, "SampledDimension", None, 5000) if io_f is not None else None
        iname = pa.params[1] if len(pa.params) > 1 else "index"
        for offset in (None, 0.0, 0.3, -1.5, 1e5):
            for interval in (0.1, 2.0, 1.0 / 30000, 1.0 / 3e6, 4e-11, 2.5e-7):
                if offset and abs(offset) / interval > 1e9:
                    continue        # beyond what double precision can resolve: not a statement about the code
                for k in (0, 1, 3, 7, 1000):
                    te = mk_eval({iname: k, "offset": offset, "sampling_interval": interval})
                    rows_ = select(ppaths, te, "SampledDimension.position_at")
                    outs_ = {repr(outcome(p_, te)) for p_ in rows_}
                    if len(outs_) != 1:
                        raise AnalysisError("decision table of SampledDimension.position_at: %d rows / outcomes %s" % (len(rows_), sorted(outs_)))
                    got = outcome(rows_[0], te)
                    # ... and back: the extracted table of index_of, asked for the sample at / at-or-after that position
                    back = []
                    if got[0] == "return" and isinstance(got[1], (int, float)) and io_paths is not None:
                        for m in ("LessOrEqual", "GreaterOrEqual"):
                            te2 = mk_eval({"position": got[1], "offset": offset, "sampling_interval": interval}, mode_val(m))
                            back.append(eval_rows(io_paths, te2, "SampledDimension.index_of")[0])
                    okb = got[0] == "return" and back and all(b == ("return", k) for b in back)
                    rep.check(R7, "position_at/offset=%s/interval=%s/%d" % (offset, interval, k), okb,
                              "position_at(%d) with offset %s and interval %s yields %s, which index_of converts back to %s, not to %d" % (
                                  k, offset, interval, got, back, k), site=pa.file + ":%d" % pa.node.lineno)

    R6 = rep.rule("C07.R6", "dimension descriptors keep nothing read from the file (ticks, labels, interval ... are read on every conversion)",
                  floor=1, technique="stateless-handle classification (see C02.R7)")
    from . import stateless
    n6 = stateless.run(M, rep, R6, only_classes={"Dimension", "SampledDimension", "RangeDimension", "SetDimension", "DimensionLink"})
    if not n6:
        rep.ok(R6, "dimension handles", "no instance attribute is written outside the constructors")

    # ---- R5 (shared with C05.R5): the conversions take ticks / labels from the accessors, which follow a link when the
    # dimension is linked -- reading the dimension's own stored copy converts against stale or absent values
    R5 = rep.rule("C07.R5", "position->index conversions read ticks/labels through the accessors (linked values when linked)", floor=4,
                  technique="event provenance (call stack of every read of the own ticks/labels) on all paths (shared with C05.R5)")
    from . import c05
    c05.accessor_use_rule(M, rep, R5, Ctx(M, coarse=False))
