# -*- coding: utf-8 -*-
"""
C08 -- tagged data is exactly the samples inside the tagged region. Decided statically (the sample selection itself is
C07's index_of / range_indices; here: what is asked of them and what is made of the answer):
 R1  per-dimension request table of _calc_data_slices: the extracted decision table is evaluated on scenarios
     (position / extent present, zero, missing, shorter than the rank; tag unit / dimension unit / dimension kind; both
     stop rules) and for each the (start, stop, mode) handed to the dimension's range_indices and the slice made of its
     answer are compared with the statement: start = position * factor, stop = start + extent * factor, the requested stop
     rule iff the extent is positive else inclusive at the exact position; answer (a, b) -> slice(a, b + 1); no answer ->
     no data; dimensions beyond the position -> whole; unit combinations that cannot be converted are refused
 R2  multi-tags: position row and extent row are taken with the same index, 1-D vectors are promoted on both, the stop
     rule is passed on unchanged
 R3  feature data by link type, all LinkType members: tagged -> the region's slices under a bounds refusal; indexed
     (multi-tag) -> the entry with the position's index, rest whole; untagged (and indexed on a plain tag) -> whole array
 R4  every view handed out by the four entry points is built from the referenced array and the computed slices, after
     the bounds refusal or the empty-region shortcut; the reference index selects the array
 R5  the bounds test refuses missing/empty slices and any stop beyond the extent
 R6  the dimension answers the request by order, exactly (shared rules C07.R1 / C07.R3: index_of tables, range_indices)
 R7  the unit factor is the SI ratio of the prefixes (shared rule C09.R1)
"""
import itertools
from types import SimpleNamespace as O
from .common import Ctx, describe_path
from .c14 import Scenario
from nixsa.px import explore
from nixsa.px_core import Budget
from nixsa.model import AnalysisError
from nixsa.dtable import TermEval, NOTHING, Unknown
from nixsa.values import show, is_const, subterms, params_of

SCALE = {("ms", "s"): 1e-3, ("s", "s"): 1.0, ("s", "ms"): 1e3, ("mV", "s"): None}
SET = ("enum", "DimensionType", "Set")
SAMPLE = ("enum", "DimensionType", "Sample")
RANGE = ("enum", "DimensionType", "Range")
EXCL = ("enum", "SliceMode", "Exclusive")
INCL = ("enum", "SliceMode", "Inclusive")


class TagScenario(Scenario):
    def __init__(self, roots, units, ri_answer, loops):
        Scenario.__init__(self, roots, loops=loops, idx_start=0)
        self.units = units
        self.ri_answer = ri_answer
        self.requests = []

    def leaf(self, t):
        h = t[0]
        if h == "call" and isinstance(t[1], str) and t[1].endswith("BaseTag.units"):
            return self.units
        if h == "mcall" and t[1] == "range_indices":
            args = [self.ev(x) for x in t[3]]
            if args not in self.requests:
                self.requests.append(args)
            return self.ri_answer
        if h == "mcall" and t[1] in ("index_of", "tick_at", "position_at"):
            # the dimension is asked something else than the index range of the region: recorded, so that the request
            # comparison reports it (a single lookup cannot express "no sample in the region")
            args = [t[1]] + [self.ev(x) for x in t[3]]
            if args not in self.requests:
                self.requests.append(args)
            return self.ri_answer[0] if isinstance(self.ri_answer, tuple) else 0
        if h == "call" and isinstance(t[1], str) and t[1].split(":")[-1] == "scaling":
            a, b = self.ev(t[2][0]), self.ev(t[2][1])
            r = SCALE.get((a, b), NOTHING)
            if r is None:
                raise InvalidUnitSignal()
            return r
        return Scenario.leaf(self, t)


def leafname(op):
    """name of a method or module-level function from its qualified name"""
    return op.split(":")[-1].split(".")[-1]


class InvalidUnitSignal(Exception):
    pass


def select(paths, sc, what):
    order = sorted({a[1] for p in paths for a, v in p.decisions if a[0] == "iter"}, key=str)
    te = sc.evaluator(order)
    hit = []
    memo = {}
    for p in paths:
        ok = True
        for a, v in p.decisions:
            if a[0] == "oraise":
                # the opaque unit conversion refuses exactly the unconvertible pair of the scenario
                try:
                    x = [sc.ev(y) for y in a[1:2]]
                except Exception:
                    pass
                r = sc.scaling_refuses
                if r != v:
                    ok = False
                    break
                continue
            r = memo.get(a, NOTHING)
            if r is NOTHING:
                try:
                    r = te.atom(a)
                except InvalidUnitSignal:
                    r = "n/a"
                except Unknown as e:
                    raise AnalysisError("C08: %s depends on an unmodelled condition %s (%s)" % (what, show(a)[:160], e))
                except (TypeError, AttributeError, IndexError):
                    r = "n/a"
                memo[a] = r
            if r != v:
                ok = False
                break
        if ok:
            hit.append(p)
    return hit


def run(M, rep, tier, only=None):
    ctx = Ctx(M, coarse=False)
    ctx.cfg.compose = False
    ctx.cfg.opaque["nixio.tag:BaseTag.units"] = ("list", ("py", "str"))
    R1 = rep.rule("C08.R1", "what is asked of the dimension and what is made of its answer, per scenario", floor=150,
                  technique="decision-table extraction of _calc_data_slices; evaluation on enumerated scenarios against the statement")
    R2 = rep.rule("C08.R2", "multi-tag row selection: same index for position and extent, stop rule passed on", floor=1,
                  technique="argument provenance of the delegated call on all abstract paths")
    R3 = rep.rule("C08.R3", "feature data for every LinkType member", floor=5, technique="decision table over the enum; returned view arguments")
    R4 = rep.rule("C08.R4", "tagged_data views: referenced array + computed slices, after the bounds logic", floor=2,
                  technique="returned-term provenance and event order on all abstract paths")
    R5 = rep.rule("C08.R5", "bounds test: refuses missing/empty slices and stops beyond the extent", floor=6,
                  technique="decision-table extraction evaluated on representatives")

    R9 = rep.rule("C08.R9", "a tag object keeps nothing it computed from one referenced array for the next (unit factors, slices)", floor=1,
                  technique="stateless-handle classification (see C02.R7)")
    from . import stateless
    n9 = stateless.run(M, rep, R9, only_classes={"BaseTag", "Tag", "MultiTag", "Feature"})
    if not n9:
        rep.ok(R9, "tag handles", "no instance attribute or per-handle table is written outside the constructors")

    # the three private helpers: by name, else by role (what tagged_data calls) when a refactoring renamed / re-homed them
    from .common import private_helper
    argn = lambda h: [a.arg for a in h.node.args.args]
    f_calc = private_helper(ctx, "Tag", "_calc_data_slices", [("Tag", "tagged_data", "methods")],
                            pick=lambda h: "stop_rule" in argn(h))
    f_inb = private_helper(ctx, "Tag", "_slices_in_data", [("Tag", "tagged_data", "methods")],
                           pick=lambda h: "stop_rule" not in argn(h) and len([a for a in argn(h) if a != "self"]) == 2)
    f_mcalc = private_helper(ctx, "MultiTag", "_calc_data_slices_mtag", [("MultiTag", "tagged_data", "methods")],
                             pick=lambda h: "stop_rule" in argn(h) and h.cls is not None and h.cls.name == "MultiTag")
    CALC = f_calc.node.name if f_calc else "_calc_data_slices"
    INB = f_inb.node.name if f_inb else "_slices_in_data"

    # ---------------------------------------------------------------- R1
    f = f_calc
    if f is None:
        rep.bad(R1, "BaseTag._calc_data_slices", "required mechanism not found")
    else:
        try:
            paths = ctx.paths(f, "Tag", max_paths=40000)
        except Budget:
            raise AnalysisError("C08: too many abstract paths in _calc_data_slices")
        dimsc = [("sample/s", SAMPLE, "s"), ("sample/-", SAMPLE, None), ("range/s", RANGE, "s"), ("set", SET, None)]
        for (dname, dtype, dunit), pos, ext, unit, rule, ans in itertools.product(
                dimsc, ((2.0,), ()), (None, (3.0,), (0.0,), (-1.0,), ()), (None, "ms", "s", "mV", "none"), (EXCL, INCL), ((10, 20), None)):
            units = [] if unit is None else [unit]
            dim = O(dimension_type=dtype, unit=dunit)
            data = O(dimensions=[dim], shape=(50,))
            sc = TagScenario({"data": data, "position": list(pos), "extent": None if ext is None else list(ext), "stop_rule": rule},
                             units, ans, loops=[1])
            # ---- spec
            refuse = False
            factor = 1.0
            if pos:
                if dtype == SET:
                    refuse = bool(unit) and unit != "none"
                else:
                    if dunit is None and unit is not None:
                        refuse = True
                    elif dunit is not None and unit is not None:
                        fct = SCALE.get((unit, dunit), "?")
                        if fct is None or fct == "?":
                            refuse = True
                        else:
                            factor = fct
            sc.scaling_refuses = bool(pos) and dtype != SET and dunit is not None and unit is not None and SCALE.get((unit, dunit), None) is None
            if unit in ("none",) and dtype != SET and dunit is not None:
                continue            # 'none' as a unit of a non-set dimension: outside the specified domain
            label = "%s,pos=%r,ext=%r,tag unit=%r,%s,answer=%r" % (dname, pos, ext, unit, rule[2], ans)
            hit = select(paths, sc, "_calc_data_slices")
            if len(hit) != 1:
                rep.bad(R1, label, "%d rows of the decision table apply" % len(hit), site=f.file)
                continue
            p = hit[0]
            if refuse:
                rep.check(R1, label, p.terminal[0] == "raise" and p.terminal[1].cls == "IncompatibleDimensions",
                          "a tag unit %r on a %s dimension with unit %r must be refused as incompatible; got %s" % (
                              unit, dname, dunit, p.terminal[1].cls if p.terminal[0] == "raise" else "a result"),
                          site=f.file + ":%d" % f.node.lineno, detail=describe_path(p))
                continue
            if p.terminal[0] == "raise":
                rep.bad(R1, label, "refused with %s although the request is legal" % p.terminal[1].cls, site=p.terminal[1].site, detail=describe_path(p))
                continue
            try:
                got = sc.ev(p.terminal[1].t)
            except (Unknown, TypeError) as e:
                raise AnalysisError("C08: cannot evaluate the slices of %s (%s)" % (label, e))
            got = got[0] if isinstance(got, (tuple, list)) and len(got) == 1 else got
            if not pos:
                want = slice(0, 50)
                rep.check(R1, label, got == want and not sc.requests, "a dimension beyond the tag's position must be taken whole; got %r" % (got,),
                          site=f.file + ":%d" % f.node.lineno, detail=describe_path(p))
                continue
            start = pos[0] * factor
            if ext:
                stop = start + ext[0] * factor
                mode = rule if ext[0] > 0 else INCL
            else:
                stop = start
                mode = INCL
            want_req = [start, stop, mode]
            want_slice = None if ans is None else slice(ans[0], ans[1] + 1)
            okr = len(sc.requests) == 1 and len(sc.requests[0]) == 3 and abs(sc.requests[0][0] - start) < 1e-9 and \
                abs(sc.requests[0][1] - stop) < 1e-9 and sc.requests[0][2] == mode
            rep.check(R1, label, okr and got == want_slice, "the dimension is asked for %s and its answer %r becomes %r; required: %s -> %r" % (
                sc.requests, ans, got, want_req, want_slice), site=f.file + ":%d" % f.node.lineno, detail=describe_path(p) if not (okr and got == want_slice) else None)

    # ---------------------------------------------------------------- R2
    octx = Ctx(M, coarse=False)
    octx.cfg.compose = False
    for h_ in (f_calc, f_inb, f_mcalc):
        if h_ is not None:
            octx.cfg.opaque[h_.qual] = None
    dvi = octx.member("DataView", "__init__")
    if dvi is not None:
        # what a view is built from is read off the constructor call, not off what the constructor then stores
        octx.cfg.opaque[dvi.qual] = ("obj", "DataView")

    def view_args(p):
        return " ".join(show(a.t) for e in p.events if e.kind == "ocall" and e.op.endswith("DataView.__init__") for a in e.args)
    mctx = Ctx(M, coarse=False)
    mctx.cfg.compose = False
    if f_calc is not None:
        mctx.cfg.opaque[f_calc.qual] = None
    g = f_mcalc
    if g is None:
        rep.bad(R2, "MultiTag._calc_data_slices_mtag", "required mechanism not found")
    else:
        bad = None
        n = 0
        for p in mctx.paths(g, "MultiTag"):
            calls = [e for e in p.events if e.kind == "ocall" and leafname(e.op) == CALC]
            if not calls:
                if p.normal:
                    bad = (p, "a normal path does not compute the slices")
                continue
            n += 1
            e = calls[0]
            a = list(e.args)
            if len(a) < 4:
                bad = (p, "the per-position slices are computed with %d arguments" % len(a))
                continue
            data, pos, ext, rule = a[0], a[1], a[2], a[3]
            if data.t != ("param", "data"):
                bad = (p, "the slices are not computed for the given array")
            if rule.t != ("param", "stop_rule"):
                bad = (p, "the stop rule handed on is %s, not the requested one" % show(rule.t))
            def row_of(v, what):
                t = v.t
                idx_ok = any(x == ("param", "index") for x in subterms(t)) and not any(
                    x and x[0] == "bin" and ("param", "index") in x[2:] for x in subterms(t))
                named = what in show(t) or any(x and x[0] == "inst" and what in show(p.heap[(x, "_h5group")].t)
                                               for x in subterms(t) if (x, "_h5group") in p.heap)
                return idx_ok and named
            if not row_of(pos, "positions"):
                bad = (p, "the position row is %s, not positions[index]" % show(pos.t)[:120])
            if not (is_const(ext) and ext.t[1] is None) and not row_of(ext, "extents"):
                bad = (p, "the extent row is %s, not extents[index] (the same index as the position)" % show(ext.t)[:120])
        rep.check(R2, "MultiTag._calc_data_slices_mtag", bad is None and n > 0, bad[1] if bad else "no computing path", site=g.file + ":%d" % g.node.lineno,
                  detail=describe_path(bad[0]) if bad else None)

    # ---------------------------------------------------------------- R3
    members = M.enum_members(M.cls("LinkType"))[1]
    for cn in ("Tag", "MultiTag"):
        h = octx.member(cn, "feature_data")
        if h is None:
            rep.bad(R3, cn + ".feature_data", "required mechanism not found")
            continue
        paths = octx.paths(h, cn, max_paths=40000)
        for lt in members:
            key = "%s.feature_data/%s" % (cn, lt)
            bad = None
            n = 0
            for p in paths:
                if not p.normal:
                    continue
                # which member does this path stand for
                dec = {}
                for a, v in p.decisions:
                    if a[0] == "eq" and a[2][0] == "enum" and a[2][1] == "LinkType":
                        dec[a[2][2]] = v
                is_lt = dec.get(lt) is True or (dec.get(lt) is None and all(v is False for v in dec.values()) and lt not in dec and dec)
                if not is_lt:
                    continue
                n += 1
                rv = p.terminal[1].t
                calc = [e for e in p.events if e.kind == "ocall" and (leafname(e.op) == CALC or (f_mcalc is not None and e.op == f_mcalc.qual))]
                inb = [e for e in p.events if e.kind == "ocall" and leafname(e.op) == INB]
                txt = show(rv)
                if lt == "Tagged":
                    if not calc or not inb:
                        bad = (p, "a tagged feature is returned without computing the region's slices under the bounds refusal")
                    else:
                        rule = calc[-1].kw.get("stop_rule") or (calc[-1].args[-1] if calc[-1].args else None)
                        if rule is None or rule.t != ("param", "stop_rule"):
                            bad = (p, "the requested stop rule does not reach the region computation of a tagged feature (%s): "
                                   "feature_data and tagged_data then cut the same region differently" % (show(rule.t) if rule is not None else "default"))
                elif lt == "Indexed" and cn == "MultiTag":
                    sl = [x for x in subterms(p.terminal[1].t) if x and x[0] == "slice"]
                    heap_sl = " ".join(show(v.t) for v in p.heap.values()) + " " + view_args(p)
                    if calc:
                        bad = (p, "an indexed feature is cut by the tagged region")
                    elif "posidx" not in heap_sl + txt or "(posidx + 1)" not in heap_sl + txt:
                        bad = (p, "an indexed feature does not select the entry [posidx : posidx + 1]")
                    elif not inb:
                        bad = (p, "an indexed feature is returned without the bounds refusal")
                else:
                    if calc:
                        bad = (p, "an %s feature is cut by the tagged region instead of being returned whole" % lt.lower())
                    heap_txt = " ".join(show(v.t) for v in p.heap.values()) + txt + " " + view_args(p)
                    if "slice(0" not in heap_txt.replace(", ", ",").replace("slice(0,", "slice(0"):
                        bad = (p, "an %s feature is not returned whole" % lt.lower())
            rep.check(R3, key, bad is None and n > 0, bad[1] if bad else "no path returns data for link type %s" % lt,
                      site=h.file + ":%d" % h.node.lineno, detail=describe_path(bad[0], 40) if bad else None)

    # ---------------------------------------------------------------- R4
    for cn in ("Tag", "MultiTag"):
        h = octx.member(cn, "tagged_data")
        key = cn + ".tagged_data"
        if h is None:
            rep.bad(R4, key, "required mechanism not found")
            continue
        bad = None
        n = 0
        for p in octx.paths(h, cn, max_paths=40000):
            if not p.normal:
                continue
            n += 1
            calc = [e for e in p.events if e.kind == "ocall" and (leafname(e.op) == CALC or (f_mcalc is not None and e.op == f_mcalc.qual))]
            if not calc:
                bad = (p, "a view is returned without computing the tagged region")
                continue
            e = calc[-1]
            rule = e.args[-1] if e.args else None
            if rule is None or rule.t != ("param", "stop_rule"):
                bad = (p, "the requested stop rule does not reach the slice computation")
            sel = any(x.kind == "layer" and x.key is not None and "refidx" in params_of(x.key.t) and x.idx < e.idx and
                      "references" in show(x.recv.t) for x in p.events) or any(
                "refidx" in params_of(a) and "references" in show(a) for a, v in p.decisions)
            if e.args and e.args[0].t[0] != "inst":
                sel = False
            if not sel:
                bad = (p, "the reference index does not select the array whose data is returned")
            if cn == "Tag":
                inb = [x for x in p.events if x.kind == "ocall" and leafname(x.op) == INB]
                empty = [v for a, v in p.decisions if a[0] == "truthy" and "all(" in show(a[1])]
                if not inb and not (empty and empty[0] is False):
                    bad = (p, "a view is returned without the bounds refusal although the region is not empty")
        rep.check(R4, key, bad is None and n > 0, bad[1] if bad else "no returning path", site=h.file + ":%d" % h.node.lineno,
                  detail=describe_path(bad[0], 40) if bad else None)

    # ---------------------------------------------------------------- R5
    sctx = Ctx(M, coarse=False)
    sctx.cfg.compose = False
    b = f_inb
    if b is None:
        rep.bad(R5, "BaseTag._slices_in_data", "required mechanism not found")
    else:
        paths = sctx.paths(b, "Tag")
        for sl, ext in ((None, (5, 5)), ((slice(0, 3), slice(1, 5)), (5, 5)), ((slice(0, 6), slice(1, 5)), (5, 5)), ((slice(0, 5), None), (5, 5)),
                        ((slice(0, 5), slice(0, 5)), (5, 5)), ((slice(2, 3),), (2,)), ((slice(1, 2),), (2,))):
            want = sl is not None and all(sl) and all(s.stop <= e for s, e in zip(sl, ext))

            def leaf(t, sl=sl, ext=ext):
                if t == ("param", "slices"):
                    return sl
                if t == ("attr", ("param", "data"), "data_extent"):
                    return ext
                if t[0] == "call" and str(t[1]).endswith("less_equal"):
                    return None
                return NOTHING
            te = TermEval(leaf)
            orig = te.ev

            def ev(t, te=te, orig=orig):
                if t[0] == "call" and str(t[1]).endswith("less_equal"):
                    a, bb = orig(t[2][0]), orig(t[2][1])
                    return [x <= y for x, y in zip(a, bb)]
                return orig(t)
            te.ev = ev
            hit = []
            for p in paths:
                try:
                    if all(te.atom(a) == v for a, v in p.decisions):
                        hit.append(p)
                except Unknown as e:
                    raise AnalysisError("C08.R5: unmodelled condition (%s)" % e)
                except (TypeError, AttributeError):
                    pass
            key = "slices=%r extent=%r" % (sl, ext)
            if len(hit) != 1:
                rep.bad(R5, key, "%d rows apply" % len(hit), site=b.file)
                continue
            try:
                got = bool(te.ev(hit[0].terminal[1].t))
            except (Unknown, TypeError) as e:
                raise AnalysisError("C08.R5: cannot evaluate the bounds test (%s)" % e)
            rep.check(R5, key, got == want, "slices %r on extent %r are judged %s; required %s" % (sl, ext, "inside" if got else "outside", "inside" if want else "outside"),
                      site=b.file + ":%d" % b.node.lineno, detail=describe_path(hit[0]))

    # ---------------------------------------------------------------- R6 / R7: what the request is answered with
    from .common import run_shared
    from . import c07, c09
    run_shared(c07, M, rep, tier, {"C07.R1": "C08.R6", "C07.R3": "C08.R6b"})
    run_shared(c09, M, rep, tier, {"C09.R1": "C08.R7"})
    # the unit (ticks, labels) a linked dimension reports -- and the tag's units are converted to -- is the linked object's
    from . import c05
    run_shared(c05, M, rep, tier, {"C05.R5": "C08.R8"})
