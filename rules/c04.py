# -*- coding: utf-8 -*-
"""
C04 -- deleting an entity removes it, what it owns and every link to it -- nothing else. Decided statically:
 R1  entity deletion (Container / SectionContainer / SourceContainer .__delitem__) ends, on every normal path, in a
     delete_all on the *file root* group whose id list derives from the item's id (and, for the two tree containers,
     from the item's whole subtree)
 R2  deleting from a link list never reaches delete_all; it unlinks in the list's own group only
 R3  role-link deleters (metadata x7, Section.link, Dimension.remove_link, ticks replacement) unlink on the entity's
     own group with delete_if_empty=False (the default would remove the *owner* when it became empty)
 R4  delete_all selects children by their entity_id attribute and walks everything below its receiver
 R5  all four __delitem__ refuse items of the wrong kind before deleting
"""
import ast
from .common import Ctx, surface, api_key, describe_path, ENTITY_CLASSES
from nixsa.px import explore, Config
from nixsa.values import show, is_const, subterms, params_of

def called_names(t):
    """leaf names of every function/method applied anywhere inside an abstract term"""
    out = set()
    for x in subterms(t):
        if x and x[0] in ("call", "mcall", "lres") and isinstance(x[1], str):
            out.add(x[1].split(":")[-1].split(".")[-1].lstrip("_"))
    return out


ROOT = ("attr", ("attr", ("self",), "_file"), "_h5group")
OWN = ("attr", ("self",), "_h5group")


def role_link_rule(M, rep, R3, ctx):
    """every H5Group.delete whose receiver is the analysed entity's own group keeps delete_if_empty off. Shared with C02."""
    n3 = 0
    for cn, name, tb, f in surface(M, ENTITY_CLASSES, ("methods", "setters", "deleters")):
        if not ctx.cg.writes(f):
            continue
        direct = ctx.cg.ops.get(f.qual, ())
        if not any(o[0] == "layer" and o[1] == "H5Group.delete" for o in direct):
            continue
        key = api_key(cn, name, tb)
        bad = None
        cnt = 0
        for p in ctx.paths(f, cn):
            for e in p.events:
                if e.kind == "layer" and e.op == "H5Group.delete" and e.recv.t == OWN and e.func == f.qual:
                    cnt += 1
                    die = e.kw.get("delete_if_empty")
                    if die is None or not (is_const(die) and die.t[1] is False):
                        bad = (p, e)
        if cnt:
            n3 += 1
            rep.check(R3, key, bad is None, "%s unlinks %r on the entity's own group with delete_if_empty left on: when the "
                      "entity has no other children the entity itself is removed from its parent" % (
                          key, ctx.fx.key(bad[1]) if bad else ""), site=bad[1].site if bad else None,
                      detail=describe_path(bad[0]) if bad else None)

    return n3


def delete_all_rule(M, rep, R4):
    """delete_all unlinks exactly the children whose entity_id is in the id list, all of them (shared with C02)"""
    from nixsa.layer import layer_config
    rcfg = layer_config(M)
    rcfg.compose = False
    hg = M.classes.get("H5Group")
    f = hg.methods.get("delete_all") if hg else None
    if f is not None:
        # private members of the layer class that delete_all itself mentions (a visitor split off into a method) are part of it
        for n_ in ast.walk(f.node):
            if isinstance(n_, ast.Attribute) and n_.attr.startswith("_") and not n_.attr.startswith("__") and n_.attr in hg.methods:
                rcfg.inline_layer = set(rcfg.inline_layer) | {hg.methods[n_.attr].qual}
    if f is None:
        rep.bad(R4, "H5Group.delete_all", "required mechanism not found")
    else:
        bad = None
        ndel = 0
        visit = False
        for p in explore(rcfg, f, "H5Group", None, 4000):
            for e in p.events:
                if e.kind == "raw" and e.op.endswith("visititems") and e.recv is not None and \
                        e.recv.t[0] == "attr" and e.recv.t[1] == ("self",):
                    visit = True
                if e.kind in ("raw", "layer") and e.op.split(".")[-1] in ("__delitem__", "delete", "pop"):
                    ndel += 1
                    ok = False
                    for c, pol in e.ctrl:
                        t = c.t
                        if pol and t[0] == "cmp" and t[1] == "in" and t[2][0] == "rd" and t[2][1] == "attr" \
                                and t[2][3] == ("const", "entity_id") and "eid" in params_of(t[3]):
                            child = t[2][2]
                            # the unlinked name must be the name of the very child whose id was tested
                            if e.key is not None and any(x == child for x in subterms(e.key.t)):
                                ok = True
                    if not ok:
                        bad = (p, e)
        rep.check(R4, "H5Group.delete_all", bad is None and ndel > 0 and visit,
                  "delete_all unlinks a child that was not selected by `<child's entity_id> in eid`" if bad else
                  ("delete_all never unlinks" if not ndel else "delete_all does not walk below its own group"),
                  site=f.file + ":%d" % f.node.lineno, detail=describe_path(bad[0]) if bad else None)

        # every matching child is unlinked, not only the first one: after an unlink in iteration 0 the walk over the
        # children must go on (two unrolled iterations)
        rcfg2 = layer_config(M, unroll=2)
        rcfg2.inline_layer = set(rcfg.inline_layer)
        rcfg2.compose = False
        cont = False
        for p in explore(rcfg2, f, "H5Group", None, 8000):
            dels = [e for e in p.events if e.kind in ("raw", "layer") and e.op.split(".")[-1] in ("__delitem__", "delete", "pop")]
            if not dels:
                continue
            first = dels[0]
            later_iter = [e for e in p.events if e.idx > first.idx and e.kind == "layer" and e.op.endswith("get_attr")
                          and e.key is not None and e.key.t == ("const", "entity_id")]
            if later_iter:
                cont = True
        rep.check(R4, "H5Group.delete_all/all matches", cont,
                  "after unlinking one matching child delete_all stops looking at the remaining children of that group: "
                  "further links to deleted entities in the same list survive", site=f.file + ":%d" % f.node.lineno)

    # ---- R6: H5Group.delete itself (raw mode)
    R6 = rep.rule("C04.R6", "H5Group.delete unlinks the named child and at most its own emptied list group -- nothing further up", floor=1,
                  technique="receivers and guards of every raw unlink on all abstract paths")
    from nixsa.px import Config as _Config
    rawcfg = _Config(M, mode="raw")
    rawcfg.compose = False
    dl = hg.methods.get("delete") if hg else None
    if dl is None:
        rep.bad(R6, "H5Group.delete", "required mechanism not found")
    else:
        bad = None
        nchild = 0
        for p in explore(rawcfg, dl, "H5Group", None, 6000):
            uns = [e for e in p.events if e.kind == "raw" and e.op.split(".")[-1] in ("__delitem__", "pop") and
                   e.kw.get("__effect__") is not None and e.kw["__effect__"].t[1] in ("U",)]
            own = 0
            for e in uns:
                keyp = params_of(e.key.t) if e.key is not None else set()
                if "id_or_name" in keyp or (e.key is not None and "get_by_id" in show(e.key.t)) or (e.key is not None and "name" in show(e.key.t) and "self.name" not in show(e.key.t)):
                    nchild += 1
                    continue
                # unlinking the receiver itself from its parent: only under delete_if_empty, once, not inside a loop
                guarded = any(pol and "delete_if_empty" in params_of(c.t) for c, pol in e.ctrl) or any(
                    a[0] == "truthy" and a[1] == ("param", "delete_if_empty") and v is True for a, v in p.decisions)
                if e.key is not None and show(e.key.t) == "self.name" and guarded and not e.loop:
                    own += 1
                    continue
                bad = (p, e, "unlinks %s[%s]" % (show(e.recv.t)[:60], show(e.key.t) if e.key is not None else "?"))
            if own > 1:
                bad = (p, uns[-1], "removes more than its own emptied group")
        rep.check(R6, "H5Group.delete", bad is None and nchild > 0, ("H5Group.delete %s: removing one link can take the owner of the list (or "
                  "its ancestors) with it" % bad[2]) if bad else "the named child is never unlinked", site=bad[1].site if bad else dl.file,
                  detail=describe_path(bad[0]) if bad else None)



def run(M, rep, tier, only=None):
    ctx = Ctx(M)
    R1 = rep.rule("C04.R1", "entity deletion = delete_all on the file root with the item's (subtree) ids", floor=3,
                  technique="must-end-in on all abstract paths; receiver identity; dependency of the id list")
    R2 = rep.rule("C04.R2", "link-list deletion stays local (never delete_all)", floor=2, technique="event absence on all paths")
    R3 = rep.rule("C04.R3", "role-link deleters never delete their owner (delete_if_empty=False)", floor=9,
                  technique="argument of every H5Group.delete on the entity's own group")
    R4 = rep.rule("C04.R4", "delete_all matches by entity_id below its receiver", floor=1, technique="guard dependency in raw mode")
    R5 = rep.rule("C04.R5", "wrong-kind refusal precedes deletion", floor=4, technique="event order on all paths")

    from .common import tree_finders
    tf = tree_finders(ctx)
    tname = lambda k: tf[k].node.name if tf.get(k) is not None else "_find_" + k
    owners = [("Container", None, None), ("SectionContainer", tname("sections"), "find_sections"),
              ("SourceContainer", tname("sources"), "find_sources")]
    # every other owning container of the package (a subclass of Container outside the link-list family), analysed with
    # its own class as the receiver: an override or an overridden lookup must keep the contract
    cbase, lbase = M.classes.get("Container"), M.classes.get("LinkContainer")
    if cbase is not None:
        for k in sorted(M.subclasses(cbase), key=lambda c_: c_.name):
            if k.name in [o[0] for o in owners] or k is cbase or (lbase is not None and M.is_subclass(k, lbase)):
                continue
            owners.append((k.name, None, None))
    def _container_member(q):
        # a composed call into a member of the container family (another __delitem__, a private helper the checks were
        # moved into): its own decisions are not visible here, they are analysed under the member's own class
        fn = M.funcs.get(q)
        return fn is not None and fn.cls is not None and cbase is not None and M.is_subclass(fn.cls, cbase)
    for cn, tree, pub in owners:
        f = ctx.member(cn, "__delitem__")
        key = cn + ".__delitem__"
        if f is None:
            rep.bad(R1, key, "required mechanism not found")
            continue
        paths = ctx.paths(f, cn)
        bad = None
        nok = 0
        for p in paths:
            if not p.normal:
                continue
            da = [e for e in p.events if e.kind == "layer" and e.op.endswith(".delete_all")]
            if not da:
                bad = (p, "a normal path deletes nothing")
                break
            e = da[-1]
            if e.recv.t != ROOT:
                bad = (p, "delete_all is scoped to %s instead of the file root group: links elsewhere in the file survive" % show(e.recv.t))
                break
            eid = e.kw.get("eid") or (e.args[0] if e.args else None)
            txt = show(eid.t) if eid is not None else ""
            if ".id" not in txt and "entity_id" not in txt:
                bad = (p, "the id list %s does not derive from the deleted item's id" % txt[:80])
                break
            # ... of an item that IS a member of this container (found through the container's own group) or an entity object
            # of the container's kind -- a bare key that merely looks like an id names anything in the file
            via_own = any(x == ("attr", ("self",), "_backend") for x in subterms(eid.t))
            typed = "item" in params_of(eid.t) and (
                any(a[0] == "isinst" and a[1] == ("param", "item") and v is True for a, v in p.decisions) or
                # delegated to another container's __delitem__ (composed: its own decisions are checked under its own class)
                any(a[0] == "outcome" and isinstance(a[1], str) and _container_member(a[1]) for a, v in p.decisions))
            if not via_own and not typed:
                bad = (p, "the id list %s is not the id of a member looked up in this container (nor of an entity object of its kind): "
                       "a key that names something else in the file deletes that" % txt[:80])
                break
            if tree and not ({tree.lstrip("_"), pub} & called_names(eid.t)):
                bad = (p, "the id list does not include the item's subtree (%s)" % tree)
                break
            if cn == "SourceContainer" and txt.count("id") < 2:
                bad = (p, "the id list misses the source itself")
                break
            nok += 1
        if bad:
            rep.bad(R1, key, bad[1], site=f.file + ":%d" % f.node.lineno, detail=describe_path(bad[0]))
        elif not nok:
            rep.bad(R1, key, "no normal path", site=f.file)
        else:
            rep.ok(R1, key, "%d normal paths" % nok)

    for cn in ("LinkContainer", "SourceLinkContainer"):
        f = ctx.member(cn, "__delitem__")
        key = cn + ".__delitem__"
        if f is None:
            rep.bad(R2, key, "required mechanism not found")
            continue
        bad = None
        nok = 0
        for p in ctx.paths(f, cn):
            for e in p.events:
                if e.kind == "layer" and e.op.endswith(".delete_all"):
                    bad = (p, "removing a link reaches delete_all: the linked entity itself would be deleted")
            if p.normal and bad is None:
                dl = [e for e in p.events if e.kind == "layer" and e.op.endswith(".delete")]
                if not dl or any(e.recv.t != ("attr", ("self",), "_backend") for e in dl):
                    bad = (p, "the link is not removed from the list's own group")
                elif any(a[0] == "isinst" and a[1] == ("param", "item") and "Entity" in a[2] and v is True for a, v in p.decisions) and \
                        any(e.key is None or not any(
                            x and ((x[0] == "rd" and x[1] == "attr" and x[3] == ("const", "entity_id") and "item" in params_of(x[2])) or
                                   (x[0] == "attr" and x[2] == "id" and "item" in params_of(x[1])) and
                                   not any(y and y[0] in ("lres", "elem") for y in subterms(x)))
                            for x in subterms(e.key.t)) for e in dl):
                    bad = (p, "an entity handed in is not removed by its own id (the entry is looked up again, e.g. by the entity's name): "
                              "with two same-named entries (sources of different parents) the wrong link is removed")
                else:
                    nok += 1
        rep.check(R2, key, bad is None and nok > 0, bad[1] if bad else "no normal path", site=f.file + ":%d" % f.node.lineno,
                  detail=describe_path(bad[0]) if bad else None)

    n3 = role_link_rule(M, rep, R3, ctx)

    delete_all_rule(M, rep, R4)

    # ---- R5
    for cn in ("Container", "SectionContainer", "SourceContainer", "LinkContainer"):
        f = ctx.member(cn, "__delitem__")
        key = cn + ".__delitem__"
        if f is None:
            continue
        refuse = 0
        bad = None
        for p in ctx.paths(f, cn):
            if p.terminal[0] == "raise" and p.terminal[1].cls == "TypeError":
                if any(ctx.fx.is_observable_write(e) for e in p.events):
                    bad = p
                refuse += 1
        rep.check(R5, key, refuse > 0 and bad is None, "no wrong-kind refusal before the deletion" if not refuse else
                  "the wrong-kind refusal comes after a write", site=f.file + ":%d" % f.node.lineno)

    # ---- R7: the subtree collection used by the tree deletes is complete (shared with C13.R2)
    from .common import run_shared
    from . import c13
    run_shared(c13, M, rep, tier, {"C13.R2": "C04.R7"})
    # ---- R8: what was deleted is gone for every handle: entity handles keep no followed link (metadata, ...) in memory
    R8 = rep.rule("C04.R8", "entity handles remember no followed link: after a deletion no handle still answers with the deleted entity",
                  floor=1, technique="stateless-handle classification (see C02.R7)")
    from . import stateless
    n8 = stateless.run(M, rep, R8, only_classes=set(ENTITY_CLASSES))
    if not n8:
        rep.ok(R8, "entity handles", "no instance attribute is written outside the constructors")
