# -*- coding: utf-8 -*-
"""helpers shared by the rule modules"""
import ast
from nixsa.model import AnalysisError
from nixsa.px import explore, Config
from nixsa.px_core import Budget
from nixsa.layer import layer_config, summaries
from nixsa.effects import FX
from nixsa.values import subterms, show, is_const, symbols, vsymbols, vparams

ENTITY_CLASSES = ["File", "Block", "Group", "DataArray", "DataFrame", "Tag", "MultiTag", "Source", "Section",
                  "Property", "Feature", "SampledDimension", "RangeDimension", "SetDimension", "DimensionLink"]
CONTAINER_CLASSES = ["Container", "SectionContainer", "SourceContainer", "LinkContainer", "SourceLinkContainer",
                     "FeatureContainer", "DimensionContainer"]
SKIP_MEMBERS = {"pprint", "_pp", "__str__", "__repr__", "print_table", "write_to_csv", "__eq__", "__ne__",
                "__hash__"}


class Ctx:
    """per-run analysis context: model, layer-mode configuration, effect classifier, path cache"""

    def __init__(self, M, unroll=1, opaque=None, max_paths=20000, sig_mode="writes", coarse=True):
        self.M = M
        self.cfg = layer_config(M, unroll=unroll, opaque=opaque)
        self.fx = FX(M, self.cfg)
        self.cfg.sig_mode = sig_mode
        self.cfg.sig_keep = self.fx.is_write
        self.cfg.coarse = public_api_callee if coarse else None
        self.max_paths = max_paths
        self._cache = {}

    def paths(self, func, cls=None, args=None, max_paths=None):
        key = (func.qual, cls, tuple(sorted((k, v.t) for k, v in (args or {}).items())))
        if key not in self._cache:
            self._cache[key] = explore(self.cfg, func, cls, args, max_paths or self.max_paths)
        return self._cache[key]

    @property
    def cg(self):
        if getattr(self, "_cg", None) is None:
            self._cg = load_callgraph(self.M)
        return self._cg

    def member(self, cname, name, table="methods"):
        c = self.M.classes.get(cname)
        if c is None:
            return None
        return self.M.lookup(c, name, table)


def analyser_digest(root):
    """the cached call graph depends on the analyser's own code as much as on the analysed sources"""
    import hashlib
    import glob
    import os
    h = hashlib.sha256()
    for f in sorted(glob.glob(os.path.join(root, "nixsa", "*.py"))):
        with open(f, "rb") as fh:
            h.update(fh.read())
    return h.hexdigest()


def private_helper(ctx, cname, name, callers, pick=None, table="methods"):
    """a private helper by name, or -- when a refactoring renamed / re-homed it -- by role: the one private function that
    every member in `callers` ((class, member, table) triples) calls; `pick` narrows by signature. None when ambiguous."""
    f = ctx.member(cname, name, table)
    if f is not None:
        return f
    M = ctx.M
    cand = None
    for spec in callers:
        g = ctx.member(*spec) if isinstance(spec, tuple) else spec
        if g is None:
            return None
        got = set()
        for q in ctx.cg.edges.get(g.qual, ()):
            h = M.funcs.get(q)
            if h is None:
                continue
            nm = h.node.name
            if nm.startswith("_") and not (nm.startswith("__") and nm.endswith("__")) and (pick is None or pick(h)):
                got.add(q)
        cand = got if cand is None else cand & got
    if cand and len(cand) == 1:
        return M.funcs[next(iter(cand))]
    return None


def private_part_of(M, q, gate_quals):
    """is the private function q only ever mentioned (called, passed on) inside the gate functions or inside other private
    functions for which the same holds? Then it is a piece the gate was split into. Public functions never qualify."""
    import ast

    def mentioners(name):
        out = set()
        for f in M.funcs.values():
            for n in ast.walk(f.node):
                if (isinstance(n, ast.Attribute) and n.attr == name) or (isinstance(n, ast.Name) and n.id == name):
                    out.add(f.qual)
                    break
        return out
    seen = set()
    todo = [q]
    while todo:
        x = todo.pop()
        if x in seen:
            continue
        seen.add(x)
        if x in gate_quals:
            continue
        name = x.split(":")[-1].split(".")[-1]
        if not name.startswith("_") or (name.startswith("__") and name.endswith("__")):
            return False
        ms = mentioners(name) - {x}
        if not ms:
            return False
        todo.extend(ms)
    return True


def io_names(ctx):
    """names of the two private hooks through which DataSet.__getitem__ / __setitem__ reach the data ('_read_data',
    '_write_data' unless a refactoring renamed them: then the private method the public operator calls)"""
    out = []
    for default, op in (("_read_data", "__getitem__"), ("_write_data", "__setitem__")):
        f = private_helper(ctx, "DataSet", default, [("DataSet", op, "methods")],
                           pick=lambda h: h.cls is not None and h.cls.name == "DataSet")
        out.append(f.node.name if f is not None else default)
    return tuple(out)


def tree_finders(ctx):
    """the two breadth-first tree searches {"sections": Func, "sources": Func}: by name, else the private function the
    public find_sections / find_sources members call"""
    out = {}
    for kind, cn in (("sections", "Section"), ("sources", "Source")):
        f = ctx.M.funcs.get("nixio.util.find:_find_" + kind)
        if f is None:
            f = private_helper(ctx, cn, "_find_" + kind, [(cn, "find_" + kind, "methods")], pick=lambda h: h.cls is None)
        out[kind] = f
        if f is not None and f.qual not in ctx.cfg.opaque:
            # keep the renamed finder a call event, as the engine's table does for the original name
            ctx.cfg.opaque[f.qual] = ("list", ("obj", cn))
    return out


def load_callgraph(M):
    """resolved call graph, cached on disk by the digest of the analysed sources"""
    import os
    import pickle
    from nixsa.callgraph import CallGraph
    root = os.path.dirname(os.path.dirname(os.path.abspath(__file__)))
    scratch = bool(os.environ.get("NIXSA_EVIDENCE_DIR"))
    d = os.environ.get("NIXSA_CACHE_DIR") or (None if scratch else os.path.join(root, ".cache"))
    if d is None:
        return CallGraph(M)     # scratch run without a cache directory of its own: leave nothing behind
    p = os.path.join(d, "cg3-%s-%s.pkl" % (M.digest[:24], analyser_digest(root)[:12]))
    if os.path.exists(p):
        try:
            with open(p, "rb") as fh:
                data = pickle.load(fh)
            cg = CallGraph.__new__(CallGraph)
            cg.M = M
            cg.direct, cg.edges, cg.may_write, cg.ops = data
            return cg
        except Exception:
            pass
    cg = CallGraph(M)
    try:
        os.makedirs(d, exist_ok=True)
        tmp = p + ".%d.tmp" % os.getpid()
        with open(tmp, "wb") as fh:
            pickle.dump((cg.direct, cg.edges, cg.may_write, cg.ops), fh)
        os.replace(tmp, p)
    except OSError:
        pass
    return cg


def public_api_callee(f):
    """callees that are public API members themselves are summarised by outcome class (they are analysed
    as entry points in their own right)"""
    if f.kind in ("set", "del"):
        return True
    return f.cls is not None and not f.name.startswith("_") and f.name != "create_new" and f.deco is None \
        and f.kind == "fn"


def surface(M, classes, tables=("methods", "setters", "deleters", "getters")):
    """API members resolved through the MRO: yields (class name, member name, table, Func)"""
    for cn in classes:
        c = M.classes.get(cn)
        if c is None:
            continue
        seen = set()
        for k in M.mro(c):
            for tb in tables:
                for name, f in getattr(k, tb).items():
                    if (name, tb) in seen:
                        continue
                    seen.add((name, tb))
                    if name in SKIP_MEMBERS:
                        continue
                    yield cn, name, tb, f


def term_has_attr(t, names):
    for x in subterms(t):
        if x and x[0] == "attr" and x[2] in names:
            return True
    return False


def api_key(cname, name, table):
    suffix = {"methods": "", "getters": "", "setters": "@set", "deleters": "@del"}[table]
    return "%s.%s%s" % (cname, name, suffix)


def describe_path(p, maxev=25):
    return p.describe(maxev)


def const_str(v):
    if v is not None and is_const(v) and isinstance(v.t[1], (str, bytes)):
        x = v.t[1]
        return x.decode() if isinstance(x, bytes) else x
    return None


def find_calls(node, pred):
    out = []
    for n in ast.walk(node):
        if isinstance(n, ast.Call) and pred(n):
            out.append(n)
    return out


def call_name(n):
    f = n.func
    if isinstance(f, ast.Attribute):
        return f.attr
    if isinstance(f, ast.Name):
        return f.id
    return None


def run_shared(mod, M, rep, tier, mapping):
    """run the rules of another property's module and report the mapped ones under this property's rule ids
    (mapping: foreign rule id -> own rule id); everything else the foreign module reports is dropped"""
    orig = (rep.rule, rep.ok, rep.bad, rep.check)

    own = set(mapping.values())

    def fix(rid):
        if rid in own or rid.startswith("_"):
            return rid
        return mapping.get(rid, "_" + rid)

    def rule(rid, title, floor=0, technique=""):
        if rid in mapping:
            return orig[0](mapping[rid], title + " (shared with %s)" % rid, floor, technique)
        return orig[0]("_" + rid, title, 0, technique)
    rep.rule = rule
    rule_ids = {}
    rep.ok = lambda rid, *a, **k: orig[1](fix(rid), *a, **k)
    rep.bad = lambda rid, *a, **k: orig[2](fix(rid), *a, **k)

    def check(rid, key, cond, message="", site=None, detail=None, what=None):
        if cond:
            orig[1](fix(rid), key, what)
        else:
            orig[2](fix(rid), key, message, site, detail)
        return cond
    rep.check = check
    before = set(rep.rules)
    try:
        mod.run(M, rep, tier, None)
    finally:
        rep.rule, rep.ok, rep.bad, rep.check = orig
    for rid in list(rep.rules):
        # only what this call put there: an enclosing shared run still needs its own dropped rules until it is done
        if rid.startswith("_") and rid not in before:
            del rep.rules[rid]
