# -*- coding: utf-8 -*-
"""
C20 -- copies. Decided statically, for the 8 copying API members (File.create_block, Block.create_{multi_tag,tag,
data_array,data_frame}, File.copy_section, Section.copy_section, Section.create_property -- copy branch):
 R1  external linkage of everything the copy path uses (shared EXT engine, see C16.R1)
 R2  an existing name at the destination is refused before anything is written: a name-only membership test of the
     effective new name on the very group the copy is created in precedes the HDF5 copy; wrong-kind sources are refused first
 R3  id policy of the hdf5 layer's copy: with keep_id false the root and every nested object that carries an entity_id
     get a fresh uuid4; with keep_id true no id is written; the copy's `name` attribute is rewritten to the new name
 R4  the copy is addressed by its effective new name afterwards (never by the source's name, never by an id that the
     original may share): what is returned / continued with is looked up under the name the copy was created with
 R5  exactly one HDF5 object copy at the subtree root per call (property re-copies of the non-recursive section copy
     excepted), the supplied name and id policy reach it unchanged
 R6  the `children` flag of the section copies decides whether the HDF5 copy is shallow
"""
from .common import Ctx, describe_path
from .c03 import creation_targets, same_group, canon_group, file_aliases
from nixsa.px import explore, Config
from nixsa.px_core import Budget
from nixsa.model import AnalysisError
from nixsa.values import show, is_const, subterms, params_of
from nixsa import extapi

COPIERS = [("File", "create_block", "copy_from"), ("Block", "create_multi_tag", "copy_from"), ("Block", "create_tag", "copy_from"),
           ("Block", "create_data_array", "copy_from"), ("Block", "create_data_frame", "copy_from"),
           ("File", "copy_section", "obj"), ("Section", "copy_section", "obj"), ("Section", "create_property", "copy_from")]


def unstr(t):
    """str(x) of a stored name is that name"""
    while t and t[0] == "call" and t[1] == "str" and len(t[2]) == 1:
        t = t[2][0]
    return t


def run(M, rep, tier, only=None):
    ctx = Ctx(M)
    R1 = rep.rule("C20.R1", "every numpy / h5py attribute used on the copy path exists in the installed library", floor=5,
                  technique="attribute chains collected from the AST, existence probed in the repository's interpreter")
    R2 = rep.rule("C20.R2", "destination-name refusal (and kind refusal) precede the HDF5 copy", floor=8,
                  technique="must-precede on all abstract paths (event order, receiver/key identity)")
    R7 = rep.rule("C20.R7", "nothing is written to the copy (or its source) after the HDF5 object copy", floor=8,
                  technique="event absence after the copy event on all copying paths")
    R3 = rep.rule("C20.R3", "id policy and renaming inside the hdf5 layer's copy", floor=3, technique="raw h5py events under the keep_id decision")
    R4 = rep.rule("C20.R4", "the copy is addressed by its effective new name afterwards", floor=8,
                  technique="key provenance of every lookup after the copy on all abstract paths")
    R5 = rep.rule("C20.R5", "one HDF5 copy per call; name and id policy are passed through", floor=8,
                  technique="event count and argument provenance")
    R6 = rep.rule("C20.R6", "children=False makes the section copy shallow", floor=2, technique="argument dependency")

    # ---------------------------------------------------------------- R1
    ch = extapi.chains(M)
    mods = ("nixio/hdf5/h5group.py", "nixio/block.py", "nixio/file.py", "nixio/section.py", "nixio/hdf5/h5dataset.py")
    sel = {k: v for k, v in ch.items() if any(f in mods and not g for f, l, g in v)}
    res = extapi.probe(list(sel))
    for (root, chain), sites in sorted(sel.items()):
        r = res.get(root + "|" + chain)
        site = ["%s:%d" % (f, l) for f, l, g in sites if not g][0]
        rep.check(R1, "%s.%s" % (root, chain), r == "ok", "%s.%s is used (%s) but the installed library does not provide it (%s)" % (
            root, chain, site, r), site=site)

    # ---------------------------------------------------------------- R2 / R4 / R5 / R6
    file_aliases(ctx)
    for cn, name, srcparam in COPIERS:
        f = ctx.member(cn, name)
        key = "%s.%s" % (cn, name)
        if f is None:
            for r in (R2, R4, R5):
                rep.bad(r, key, "required mechanism not found")
            continue
        try:
            paths = ctx.paths(f, cn, max_paths=30000)
        except Budget:
            raise AnalysisError("C20: too many abstract paths in %s" % key)
        bad2 = bad4 = bad5 = bad6 = bad7 = None
        ncopy = 0
        kind_ref = 0
        dup_ref = 0
        for p in paths:
            copies = [e for e in p.events if e.kind == "layer" and e.op == "H5Group.copy"]
            if p.terminal[0] == "raise" and p.terminal[1].cls == "TypeError" and not copies and not any(
                    ctx.fx.is_observable_write(e) for e in p.events):
                kind_ref += 1
            if p.terminal[0] == "raise" and p.terminal[1].cls == "NameError" and not copies:
                if any(ctx.fx.is_observable_write(e) for e in p.events):
                    bad2 = (p, "the existing-name refusal comes after a write")
                dup_ref += 1
            if not copies:
                continue
            # the root copy is the first one; further ones may only be property re-copies of a non-recursive section copy
            root = copies[0]
            extra = [e for e in copies[1:] if not any(q.endswith("Section.create_property") for q in e.stack)]
            if extra:
                bad5 = (p, "more than one HDF5 object copy at the top level of one call")
            ncopy += 1
            nm = root.kw.get("name")
            dest, cls = root.kw.get("dest"), root.kw.get("cls")
            if nm is None or dest is None or cls is None:
                bad5 = (p, "the HDF5 copy is not given name/dest/cls")
                continue
            # R2: membership test of the very name on the destination group before the copy
            found = False
            for c in p.events:
                if c.idx >= root.idx:
                    break
                if c.kind == "layer" and c.op == "H5Group.__contains__" and c.key is not None and c.key.t == nm.t and \
                        same_group(c.recv.t, ("copydest", dest.t, cls.t)):
                    found = True
            if not found:
                others = [c for c in p.events if c.idx < root.idx and c.kind == "layer" and c.op.endswith("__contains__")]
                bad2 = (p, "no membership test of the new name %s on the destination group %s/%s precedes the copy%s" % (
                    show(nm.t), show(dest.t), show(cls.t), ("; tested instead: " + ", ".join(
                        "%s[%s]" % (show(c.recv.t)[:50], show(c.key.t)) for c in others[:2])) if others else ""))
            # R5: name / keep_id pass-through
            pn = params_of(nm.t)
            if not (("name" in pn) or (srcparam in pn)):
                bad5 = (p, "the copy is created under %s, which is neither the supplied name nor the source's name" % show(nm.t))
            kid = root.kw.get("keep_id")
            if kid is None or not (params_of(kid.t) & {"keep_id", "keep_copy_id"}):
                bad5 = (p, "the requested id policy does not reach the HDF5 copy (keep_id=%s)" % (show(kid.t) if kid is not None else "default"))
            src = root.kw.get("source")
            if src is None or srcparam not in params_of(src.t):
                bad5 = (p, "the copied source path does not derive from the object to be copied")
            # R6
            if name == "copy_section":
                sh = root.kw.get("shallow")
                if sh is None or "children" not in params_of(sh.t) | {d[1] for d in sh.dep if isinstance(d, tuple) and d and d[0] == "param"}:
                    chd = [v for a, v in p.decisions if a[0] == "truthy" and a[1] == ("param", "children")]
                    if not (sh is not None and is_const(sh) and chd and sh.t[1] == (not chd[0])):
                        bad6 = (p, "the `children` flag does not decide whether the HDF5 copy is shallow (shallow=%s)" % (
                            show(sh.t) if sh is not None else "default False"))
            # R4: lookups after the copy use the copy's effective name, on the destination container
            looked = False
            for e in p.events:
                if e.idx <= root.idx or e.kind != "layer":
                    continue
                m = e.op.split(".")[-1]
                if m in ("get_by_id_or_name", "get_by_name", "get_by_id", "get_by_pos") and e.key is not None and \
                        same_group(e.recv.t, ("copydest", dest.t, cls.t)):
                    looked = True
                    if not any(unstr(x) == unstr(nm.t) for x in subterms(e.key.t)):
                        bad4 = (p, "after the copy the destination is searched for %s, but the copy was created as %s: with a "
                                "supplied new name or kept ids this finds the original (or nothing)" % (show(e.key.t), show(nm.t)))
            if p.normal and not looked:
                bad4 = bad4 or (p, "the returned entity is not looked up in the destination under the copy's name %s" % show(nm.t))
            # R7: the copy is what HDF5 copied: nothing is written to it (or to its source) afterwards
            for e in p.events:
                if e.idx > root.idx and e.kind == "layer" and e.op != "H5Group.copy" and ctx.fx.is_observable_write(e) and \
                        not any(q.endswith("Section.create_property") for q in e.stack):
                    bad7 = (p, "after the HDF5 copy %s writes %s:%s: the copy then differs from its source in more than name and id "
                            "(an attribute replaced by an argument's default, a link re-pointed)" % (key, e.op.split(".")[-1], ctx.fx.key(e)))
        site = f.file + ":%d" % f.node.lineno
        rep.check(R2, key, bad2 is None and ncopy > 0 and kind_ref > 0 and dup_ref > 0, bad2[1] if bad2 else
                  "required mechanism not found: %d copying path(s), %d wrong-kind refusal(s), %d existing-name refusal(s)" % (ncopy, kind_ref, dup_ref),
                  site=site, detail=describe_path(bad2[0]) if bad2 else None)
        rep.check(R4, key, bad4 is None and ncopy > 0, bad4[1] if bad4 else "no copying path", site=site,
                  detail=describe_path(bad4[0], 60) if bad4 else None)
        rep.check(R5, key, bad5 is None and ncopy > 0, bad5[1] if bad5 else "no copying path", site=site,
                  detail=describe_path(bad5[0]) if bad5 else None)
        rep.check(R7, key, bad7 is None and ncopy > 0, bad7[1] if bad7 else "no copying path", site=site,
                  detail=describe_path(bad7[0], 60) if bad7 else None)
        if name == "copy_section":
            rep.check(R6, key, bad6 is None and ncopy > 0, bad6[1] if bad6 else "no copying path", site=site,
                      detail=describe_path(bad6[0]) if bad6 else None)

    # ---------------------------------------------------------------- R3 (raw mode)
    rcfg = Config(M, mode="raw")
    rcfg.compose = False
    hg = M.classes.get("H5Group")
    cp = hg.methods.get("copy") if hg else None
    if cp is None:
        rep.bad(R3, "H5Group.copy", "required mechanism not found")
        return
    badk = badn = badr = None
    nk = nn = ncp = 0
    for p in explore(rcfg, cp, "H5Group", None, 6000):
        if not p.normal:
            continue
        keep = [v for a, v in p.decisions if a[0] == "truthy" and a[1] == ("param", "keep_id")]
        idw = [e for e in p.events if e.kind == "raw" and e.op.startswith("attrs.") and e.kw["__effect__"].t[1] == "Wattr" and
               e.key is not None and e.key.t == ("const", "entity_id")]
        namew = [e for e in p.events if e.kind == "raw" and e.op.startswith("attrs.") and e.kw["__effect__"].t[1] == "Wattr" and
                 e.key is not None and e.key.t == ("const", "name")]
        cps = [e for e in p.events if e.kind == "raw" and e.op.split(".")[-1] == "copy"]
        if not cps:
            continue            # the source group does not exist (None has no copy): not a copying path
        ncp += 1
        if len(cps) != 1:
            badr = (p, "the hdf5 layer's copy performs %d HDF5 object copies" % len(cps))
        if not namew or not any(len(e.args) > 1 and e.args[1].t == ("param", "name") for e in namew):
            badr = (p, "the copy's `name` attribute is not rewritten to the new name")
        if keep and keep[0] is True:
            nk += 1
            if idw:
                badk = (p, "ids are rewritten although keep_id is true")
        elif keep and keep[0] is False:
            nn += 1
            fresh = [e for e in idw if len(e.args) > 1 and any(x and x[0] == "call" and x[1] == "uuid4" for x in subterms(e.args[1].t))]
            if not fresh:
                badn = (p, "keep_id=False does not give the copy's root a fresh uuid4")
        else:
            badk = (p, "the id policy is not decided by keep_id")
    rep.check(R3, "H5Group.copy/keep", badk is None and nk > 0, badk[1] if badk else "no keep_id=True path", site=cp.file + ":%d" % cp.node.lineno,
              detail=describe_path(badk[0]) if badk else None)
    rep.check(R3, "H5Group.copy/renew", badn is None and nn > 0, badn[1] if badn else "no keep_id=False path", site=cp.file + ":%d" % cp.node.lineno,
              detail=describe_path(badn[0]) if badn else None)
    rep.check(R3, "H5Group.copy/rename", badr is None and ncp > 0, badr[1] if badr else "no path performs an HDF5 object copy", site=cp.file + ":%d" % cp.node.lineno,
              detail=describe_path(badr[0]) if badr else None)
    # nested ids (shared with C03.R3): the walk may skip an object only after finding it has no entity_id
    skip = None
    nvis = 0
    for p in explore(rcfg, cp, "H5Group", None, 6000):
        vis = [e for e in p.events if e.kind == "raw" and e.op.split(".")[-1] in ("visititems", "visit")]
        entered = [v for a, v in p.decisions if a[0] == "iter" and a[1] == "visit"]
        if not vis or not entered or entered[0] is not True:
            continue
        nvis += 1
        inside = [e for e in p.events if e.idx > vis[0].idx]
        tested = any(e.kind == "raw" and e.op == "attrs.__contains__" and e.key is not None and e.key.t == ("const", "entity_id") for e in inside)
        wrote = any(e.kind == "raw" and e.op.startswith("attrs.") and e.kw["__effect__"].t[1] == "Wattr" and e.key is not None and
                    e.key.t == ("const", "entity_id") for e in inside)
        if not tested and not wrote:
            skip = p
    rep.check(R3, "H5Group.copy/nested", skip is None and nvis > 0, "the re-id walk skips an object without looking at its entity_id: nested "
              "properties (HDF5 datasets) keep the ids of the originals" if skip else "no walk over the copied subtree",
              site=cp.file + ":%d" % cp.node.lineno, detail=describe_path(skip) if skip else None)
