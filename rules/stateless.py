# -*- coding: utf-8 -*-
"""
Stateless handles (shared by C02.R7 and C17.R3c): a nixio object is a handle on an HDF5 location; several handles on the
same entity may be alive at once, so anything a handle *remembers* about the file's content can go stale through another
handle and then differs from what a reopened file shows. Decided statically for every class of the package:

  S1  a value stored into an instance attribute outside __init__ is a handle on a fixed location (a container, a parent
      entity, an h5py object, None) -- never data read from storage (other than the immutable id/name), never an argument
      of the call (a written value remembered), never an entity handle obtained by following a child/link of the own group
      (what a role link points to can be changed through another handle)
  S2  no mutable container held by an instance attribute is filled outside __init__ (per-handle look-aside tables)
  S3  a module-level table may be filled only with values that are determined by the key they are stored under

The values are classified on the abstract paths of PX (resolved types and storage-read terms), not on the text.
"""
import ast
from nixsa.px import explore, Config
from nixsa.px_core import Budget
from nixsa.layer import layer_config
from nixsa.model import AnalysisError
from nixsa.values import subterms, show, is_const
from nixsa import tables as T

SESSION_STATE = {("File", "_auto_update_timestamps"): "session switch, not file content"}
IMMUTABLE_KEYS = {"entity_id", "name"}
HANDLE_LRES = {"open_group", "get_by_name", "get_by_id", "get_by_id_or_name", "get_by_pos", "create_from_h5obj", "parent",
               "group", "h5obj", "dataset", "h5root", "create_dataset", "get_dataset", "copy"}
DATA_RAW_ATTRS = {k for k, v in T.RAW_ATTR.items() if v is None}
MUTATORS = {"append", "extend", "insert", "update", "setdefault", "add", "__setitem__"}


def _self_name(f):
    return f.params[0] if (f.cls is not None and f.deco != "staticmethod" and f.params) else None


def candidate_sites(M):
    """functions that syntactically store to / mutate something rooted at their instance or a module-level name"""
    out = []
    for q, f in sorted(M.funcs.items()):
        if f.module.name.startswith("nixio.cmd") or f.outer is not None:
            continue
        sn = _self_name(f)
        mod = f.module
        glob = set(mod.assigns)
        local = set(f.params)
        for n in ast.walk(f.node):
            if isinstance(n, ast.Name) and isinstance(n.ctx, ast.Store):
                local.add(n.id)
        hits = []
        for n in ast.walk(f.node):
            root = None
            kind = None
            if isinstance(n, ast.Attribute) and isinstance(n.ctx, ast.Store) and isinstance(n.value, ast.Name) and n.value.id == sn:
                if f.name != "__init__":
                    hits.append(("attr", n.attr, n))
                continue
            if isinstance(n, ast.Subscript) and isinstance(n.ctx, ast.Store):
                root, kind = n.value, "setitem"
            elif isinstance(n, ast.Call) and isinstance(n.func, ast.Attribute) and n.func.attr in MUTATORS:
                root, kind = n.func.value, n.func.attr
            if root is None:
                continue
            chain = []
            while isinstance(root, (ast.Subscript, ast.Attribute)):
                if isinstance(root, ast.Attribute):
                    chain.append(root.attr)
                root = root.value
            if isinstance(root, ast.Name):
                if root.id == sn and chain:
                    hits.append(("selfcont", chain[-1], n))
                elif root.id not in local and root.id in glob:
                    hits.append(("global", root.id, n))
        if hits:
            out.append((f, hits))
    return out


FRESH = {"dict", "list", "set", "defaultdict", "OrderedDict", "deque", "Counter", "WeakValueDictionary"}


def holds_fresh_container(M, cn, attr):
    """is self.<attr> somewhere in the class (MRO) assigned a freshly made mutable container (a look-aside table), as
    opposed to a handle that was passed in"""
    if cn is None or cn not in M.classes:
        return True
    assigned = False
    for k in M.mro(M.classes[cn]):
        for tb in ("methods", "getters", "setters"):
            for f in getattr(k, tb).values():
                sn = _self_name(f)
                for n in ast.walk(f.node):
                    if isinstance(n, ast.Assign):
                        for t in n.targets:
                            if isinstance(t, ast.Attribute) and isinstance(t.value, ast.Name) and t.value.id == sn and t.attr == attr:
                                assigned = True
                                v = n.value
                                if isinstance(v, (ast.Dict, ast.List, ast.Set, ast.ListComp, ast.DictComp, ast.SetComp)):
                                    return True
                                if isinstance(v, ast.Call):
                                    nm = v.func.attr if isinstance(v.func, ast.Attribute) else getattr(v.func, "id", "")
                                    if nm in FRESH:
                                        return True
    return not assigned


def storage_derived(t):
    """first sub-term of an abstract value that is data read from storage (not a handle), else None"""
    for x in subterms(t):
        if not x:
            continue
        h = x[0]
        if h == "rd":
            k = x[3]
            if x[1] == "attr" and k is not None and k[0] == "const" and k[1] in IMMUTABLE_KEYS:
                continue
            if x[1] == "child":
                continue
            return x
        if h == "lres" and x[1] not in HANDLE_LRES and not x[1].startswith("new:"):
            return x
        if h == "attr" and x[2] in DATA_RAW_ATTRS and x[2] != "name":
            return x
        if h == "rawres" and x[1] not in ("require_dataset", "create_dataset", "create_group", "require_group"):
            return x
        if h == "elem" and not any(y and y[0] == "param" for y in subterms(x[1])):
            # the elements of something reached from the handle itself: which children exist (and in which order) is a
            # fact about the file
            return x
    return None


def followed_child(M, t):
    """an entity instance constructed on a group found by a lookup below the own group"""
    if not (t and t[0] == "inst" and t[1] in M.classes):
        return None
    return t


def run(M, rep, rid, own_ctx=None, only_classes=None, only_modules=None):
    lcfg = layer_config(M)
    lcfg.compose = False
    rcfg = Config(M, mode="raw")
    rcfg.compose = False
    containers = {c.name for c in M.classes.values() if "Container" in M.classes and M.is_subclass(c, "Container")}
    n = 0
    for f, hits in candidate_sites(M):
        cn = f.cls.name if f.cls is not None else None
        if only_classes is not None and not (cn in only_classes or (only_modules and f.module.name in only_modules)):
            continue
        key_base = f.qual.split(":")[-1]
        layer = cn in T.LAYER_CLASSES
        # ---- S3: module-level tables (key must determine the value)
        for kind, name, node in hits:
            if kind != "global":
                continue
            n += 1
            ok, why = module_table_ok(f, name, node)
            rep.check(rid, "%s/%s" % (key_base, name), ok, "%s fills the module-level table %s with a value that its key does "
                      "not determine (%s): a later lookup can return what belonged to another object" % (key_base, name, why),
                      site="%s:%d" % (f.file, node.lineno))
        # ---- S2: only bases that do not resolve to a storage handle / repo object are per-handle tables
        cont = [(name, node) for kind, name, node in hits if kind == "selfcont"
                and not (cn is not None and M.lookup(M.classes[cn], name, "getters") is not None)
                and name not in T.ATTR_TYPES and not any(k[1] == name for k in T.ATTR_TYPES_BY_CLASS)]
        cont = [(name, node) for name, node in cont if holds_fresh_container(M, cn, name)]
        if cont:
            try:
                cpaths = explore(rcfg if layer else lcfg, f, cn, None, 60000)
            except Budget:
                raise AnalysisError("stateless-handle rule: %s has too many abstract paths" % f.qual)
            for name, node in cont:
                n += 1
                hit = None
                for p in cpaths:
                    for e in p.events:
                        if e.kind == "local" and e.recv is not None and e.func == f.qual and any(
                                x == ("attr", ("self",), name) for x in subterms(e.recv.t)):
                            hit = (p, e)
                if isinstance(node, ast.Call):
                    hit = hit or (None, None)       # mutating method call on an unresolved per-handle container
                rep.check(rid, "%s/self.%s" % (key_base, name), hit is None, "%s fills a per-handle table self.%s: what one handle "
                          "remembers is not updated when the file changes through another handle" % (key_base, name),
                          site="%s:%d" % (f.file, node.lineno))
        attrs = [(name, node) for kind, name, node in hits if kind == "attr"]
        if not attrs:
            continue
        # properties with setters are calls, not state
        attrs = [(a, nd) for a, nd in attrs if cn is None or M.lookup(M.classes[cn], a, "setters") is None]
        if not attrs:
            continue
        try:
            paths = explore(rcfg if layer else lcfg, f, cn, None, 60000)
        except Budget:
            raise AnalysisError("stateless-handle rule: %s has too many abstract paths" % f.qual)
        per_attr = {}
        for p in paths:
            for e in p.events:
                if e.kind == "heap" and e.op == "store" and e.recv is not None and e.recv.t == ("self",) and e.func == f.qual:
                    per_attr.setdefault(e.key.t[1], []).append((p, e))
        for a, nd in attrs:
            key = "%s/self.%s" % (key_base, a)
            n += 1
            if (cn, a) in SESSION_STATE:
                rep.ok(rid, key, SESSION_STATE[(cn, a)])
                continue
            bad = None
            for p, e in per_attr.get(a, ()):
                val = e.args[0]
                t = val.t
                if is_const(val):
                    continue
                sd = storage_derived(t)
                if sd is not None:
                    bad = (p, "stores data read from the file (%s)" % show(sd)[:80])
                    break
                ps = [x for x in subterms(t) if x and x[0] == "param"]
                if ps and not any(tt[0] in ("obj", "h5") for tt in val.ty):
                    bad = (p, "remembers the argument %s of the call" % show(ps[0]))
                    break
                if t[0] == "inst" and t[1] in M.classes and t[1] not in containers and not M.is_subclass(t[1], "Container"):
                    # an entity handle: fine for fixed locations (parents), not for what a child/link lookup returned
                    bad = (p, "keeps a %s handle obtained by following a child/link of the own group" % t[1])
                    break
            rep.check(rid, key, bad is None, "%s %s in self.%s: the handle then answers from memory, not from the file (stale "
                      "when another handle changes it; differs after reopening)" % (key_base, bad[1] if bad else "", a),
                      site="%s:%d" % (f.file, nd.lineno), detail=bad[0].describe(25) if bad else None)
    return n


# ---------------------------------------------------------------------- module-level tables
def _paths_of(e):
    """access paths (dotted) read inside expression e, e.g. {'dtype', 'dtype.names'}"""
    out = set()
    for x in ast.walk(e):
        if isinstance(x, ast.Attribute):
            parts = []
            y = x
            while isinstance(y, ast.Attribute):
                parts.append(y.attr)
                y = y.value
            if isinstance(y, ast.Name):
                out.add(".".join([y.id] + parts[::-1]))
        elif isinstance(x, ast.Name):
            out.add(x.id)
    # drop prefixes that only occur as part of a longer path in a pure attribute chain
    return out


def _maximal_paths(e):
    """for every Name occurrence the longest attribute chain it is the root of"""
    res = set()
    parents = {}
    for x in ast.walk(e):
        for c in ast.iter_child_nodes(x):
            parents[c] = x
    for x in ast.walk(e):
        if isinstance(x, ast.Name):
            parts = [x.id]
            y = x
            while isinstance(parents.get(y), ast.Attribute) and parents[y].value is y:
                y = parents[y]
                parts.append(y.attr)
            res.add(".".join(parts))
    return res


def module_table_ok(f, name, node):
    """key-determines-value test on access paths, through local assignments (flow-insensitive)"""
    defs = {}
    for n in ast.walk(f.node):
        if isinstance(n, ast.Assign):
            for t in n.targets:
                if isinstance(t, ast.Name):
                    defs.setdefault(t.id, []).append(n.value)
        elif isinstance(n, ast.Call) and isinstance(n.func, ast.Attribute) and n.func.attr in MUTATORS and \
                isinstance(n.func.value, ast.Name):
            for a in n.args:
                defs.setdefault(n.func.value.id, []).append(a)
        elif isinstance(n, (ast.For, ast.comprehension)):
            tg = n.target
            for x in ast.walk(tg):
                if isinstance(x, ast.Name):
                    defs.setdefault(x.id, []).append(n.iter)
    params = set(f.params)

    def expand(paths, depth=0):
        out = set()
        for p in paths:
            root = p.split(".")[0]
            if root in params or depth > 6 or root not in defs:
                out.add(p)
            else:
                for d in defs[root]:
                    out |= expand(_maximal_paths(d), depth + 1)
        return out
    if isinstance(node, ast.Subscript):
        keyexpr = node.slice
        par = None
        for n in ast.walk(f.node):
            if isinstance(n, ast.Assign) and any(t is node for t in n.targets):
                par = n
        valexpr = par.value if par is not None else None
    else:
        args = node.args
        if node.func.attr in ("setdefault", "__setitem__") and len(args) >= 2:
            keyexpr, valexpr = args[0], args[1]
        else:
            return False, "unkeyed mutation %s" % node.func.attr
    if valexpr is None:
        return False, "cannot find the stored value"
    kp = {p for p in expand(_maximal_paths(keyexpr)) if p.split(".")[0] in params}
    vp = {p for p in expand(_maximal_paths(valexpr)) if p.split(".")[0] in params}
    for v in sorted(vp):
        if not any(v == k or v.startswith(k + ".") for k in kp):
            return False, "value uses %s, key only %s" % (v, sorted(kp))
    return True, ""
