# -*- coding: utf-8 -*-
"""
C05 -- links are aliases of the original entity and stay in their block. Decided statically:
 R1  every link creation of the three link creators (LinkContainer.append, SourceLinkContainer.append, Feature.data
     setter) is preceded, on every abstract path, by a *positive* membership decision about the very object that is
     linked, taken in the owning block's container (for sources: a search of the block's whole source tree by id);
     the negative decision ends in a refusal without any link; every LinkContainer handed out by an entity class
     is constructed with the owning block's container of the same item class as its item store
 R2  membership of an entity in a Container is decided by identity: the result depends on the item's id
 R3  links are hard links to the target's own HDF5 group: H5Group.create_link stores the target's group object;
     h5py object copy is used only by H5Group.copy; no soft/external links anywhere
 R4  ticks/link typestate: after the ticks setter the link is absent and ticks are written; after
     RangeDimension.link_data_array/_frame the link exists and explicit ticks are absent; an existing link is
     removed before a new one is created
 R5  a linked dimension reads (and writes) unit/label/ticks/labels through the link, an unlinked one from its own
     group, under the same storage keys the linked object's own accessors use; a linked SetDimension refuses
     writes of its labels
"""
import ast
from .common import private_part_of, Ctx, surface, api_key, describe_path, ENTITY_CLASSES
from nixsa.px import explore, Config
from nixsa.px_attr import PRESENT
from nixsa.px_call import ABSENT
from nixsa.values import show, is_const, subterms, params_of, vsymbols
from nixsa.model import AnalysisError

OWN = ("attr", ("self",), "_h5group")


def decided(p, pred):
    """value of the first decision whose atom satisfies pred, else None"""
    for a, v in p.decisions:
        if pred(a):
            return v
    return None


def presence(p, recv, key):
    """is child `key` of group term `recv` present at the end of path p: True / False / None (unknown)"""
    st = p.store.get((recv, "child", ("const", key)))
    if st is not None:
        if st is PRESENT:
            return True
        if st.t == ("absent",):
            return False
        return True
    v = decided(p, lambda a: a[0] == "truthy" and a[1] == ("rd", "child", recv, ("const", key)))
    return v


def link_decision(p):
    return decided(p, lambda a: a[0] == "truthy" and a[1] == ("rd", "child", OWN, ("const", "link")))


def reads_of(t):
    return [x for x in subterms(t) if x and x[0] == "rd"]


def through_link(t):
    """does storage-read term t address the object behind the dimension's link group"""
    recv = t[2]
    return any(x and x[0] == "lres" and x[1] in ("get_by_name", "open_group") and x[3] and x[3][0] == ("const", "link")
               for x in subterms(recv))


def accessor_use_rule(M, rep, R5, nctx):
    """position->index functions must see what the accessors report (linked values when linked). Shared with C07."""
    actx = Ctx(M, sig_mode="full", coarse=False)
    actx.cfg.sig_keep = lambda e: e.kind in ("layer", "raw")
    for cn, name, key, accessor in (("SetDimension", "index_of", "labels", "SetDimension.labels"),
                                    ("SetDimension", "range_indices", "labels", "SetDimension.labels"),
                                    ("RangeDimension", "index_of", "ticks", "RangeDimension.ticks"),
                                    ("RangeDimension", "range_indices", "ticks", "RangeDimension.ticks"),
                                    ("RangeDimension", "tick_at", "ticks", "RangeDimension.ticks"),
                                    ("RangeDimension", "axis", "ticks", "RangeDimension.ticks")):
        f = nctx.member(cn, name)
        ident = "%s.%s/%s" % (cn, name, key)
        if f is None:
            continue
        bad = None
        nread = 0
        try:
            paths = actx.paths(f, cn, max_paths=20000)
        except Exception as e:
            if type(e).__name__ != "Budget":
                raise
            continue
        for p in paths:
            for e in p.events:
                if e.kind == "layer" and e.op.split(".")[-1] in ("get_data", "has_data", "get_dataset") and e.key is not None and \
                        e.key.t == ("const", key) and e.recv is not None and e.recv.t == OWN:
                    nread += 1
                    if not any(q.split(":")[-1] == accessor for q in e.stack):
                        bad = (p, e)
        if nread:
            rep.check(R5, ident, bad is None, "%s.%s reads the stored %s of the dimension directly instead of through the %s accessor: a linked "
                      "dimension is then converted with stale/absent values while its accessor reports the linked ones" % (cn, name, key, key),
                      site=bad[1].site if bad else None, detail=describe_path(bad[0]) if bad else None, what="%d reads, all through the accessor" % nread)



def create_link_rule(M, rep, R3):
    """H5Group.create_link stores exactly one hard link to the target's own group under the requested name on every normal
    path -- also when a link of that name exists (it is replaced). Shared with C02 (last assignment wins)."""
    rcfg = Config(M, mode="raw")
    rcfg.compose = False
    hg = M.classes.get("H5Group")
    f = hg.methods.get("create_link") if hg else None
    if f is None:
        rep.bad(R3, "H5Group.create_link", "required mechanism not found")
    else:
        bad = None
        n = 0
        for p in explore(rcfg, f, "H5Group", None, 2000):
            if not p.normal:
                continue
            sets = [e for e in p.events if e.kind == "raw" and e.op.endswith("__setitem__") and
                    e.kw.get("__effect__") is not None and e.kw["__effect__"].t[1] == "Wlink"]
            if len(sets) != 1:
                bad = (p, "create_link does not store exactly one link")
                break
            e = sets[0]
            n += 1
            val = e.args[1] if len(e.args) > 1 else None
            if e.key is None or e.key.t != ("param", "name"):
                bad = (p, "the link is not stored under the requested name")
                break
            if val is not None and is_const(val) and val.t[1] is None:
                rep.assume("a target entity whose HDF5 group does not exist yields None, which h5py refuses to store")
                continue
            if val is None or "target" not in params_of(val.t):
                bad = (p, "the stored object is not the target's own HDF5 group")
                break
            s = show(val.t)
            if "SoftLink" in s or "ExternalLink" in s or "copy" in s:
                bad = (p, "the link is not a hard link (%s)" % s)
                break
        rep.check(R3, "H5Group.create_link", bad is None and n > 0, bad[1] if bad else "no linking path",
                  site=f.file + ":%d" % f.node.lineno, detail=describe_path(bad[0]) if bad else None)


def run(M, rep, tier, only=None):
    ctx = Ctx(M)
    nctx = Ctx(M, coarse=False)
    nctx.cfg.compose = False
    R1 = rep.rule("C05.R1", "a positive same-block membership decision about the linked object precedes every link creation",
                  floor=10, technique="must-precede on all abstract paths; construction-site argument agreement")
    R2 = rep.rule("C05.R2", "Container membership of an entity is decided by identity (depends on the item's id)", floor=1,
                  technique="dependency of the returned truth value on all abstract paths")
    R3 = rep.rule("C05.R3", "links are hard links to the target's group; object copy only in H5Group.copy", floor=3,
                  technique="raw h5py event arguments; who-may-call")
    R4 = rep.rule("C05.R4", "ticks / link typestate of range dimensions", floor=5,
                  technique="abstract storage state at every normal exit")
    R5 = rep.rule("C05.R5", "linked dimensions read and write through the link under the linked object's own keys", floor=8,
                  technique="guard / returned-term correspondence on all abstract paths; storage-key agreement")

    R6 = rep.rule("C05.R6", "link roles are resolved on every access (no remembered link targets)", floor=5,
                  technique="stateless-handle classification (see C02.R7)")
    from . import stateless
    stateless.run(M, rep, R6, only_classes={"MultiTag", "Tag", "BaseTag", "Group", "Feature", "Dimension", "RangeDimension",
                                             "SetDimension", "SampledDimension", "DimensionLink", "DataArray", "LinkContainer",
                                             "SourceLinkContainer"})

    R7 = rep.rule("C05.R7", "a dimension link selects exactly the configured vector of the linked array", floor=1,
                  technique="per-entry table of the index transformation")
    link_values_table(M, rep, R7, nctx)

    # ------------------------------------------------------------------ R1a
    # private helpers are inlined (the membership decision may sit in one), public members stay summarised
    ictx1 = Ctx(M)
    ictx1.cfg.compose = False
    for cn, name, tb in (("LinkContainer", "append", "methods"), ("SourceLinkContainer", "append", "methods"),
                         ("Feature", "data", "setters")):
        f = ctx.member(cn, name, tb)
        key = api_key(cn, name, tb)
        if f is None:
            rep.bad(R1, key, "required mechanism not found: %s" % key)
            continue
        bad = None
        nlink = nref = 0
        for p in ictx1.paths(f, cn):
            links = [e for e in p.events if e.kind == "layer" and e.op == "H5Group.create_link"]
            memb = None
            for a, v in p.decisions:
                if a[0] == "in" and cn != "SourceLinkContainer":
                    memb = (a, v, a[1])
                if a[0] == "truthy" and a[1][0] == "mcall" and a[1][1] == "find_sources":
                    memb = (a, v, None)
            if links:
                nlink += 1
                tgt = links[0].kw.get("target") or (links[0].args[0] if links[0].args else None)
                if memb is None or memb[1] is not True:
                    bad = (p, "a link is created without a positive membership decision about the linked object")
                    break
                if memb[2] is not None and tgt is not None and memb[2] != tgt.t:
                    bad = (p, "the membership test is about %s but %s is linked" % (show(memb[2]), show(tgt.t)))
                    break
                a = memb[0]
                if cn == "LinkContainer" and a[2] != ("attr", ("self",), "_itemstore"):
                    bad = (p, "membership is tested in %s, not in the owning block's item store" % show(a[2]))
                    break
                if cn == "Feature":
                    s = show(a[2])
                    if not s.startswith("self._parent._parent."):
                        bad = (p, "membership is tested in %s, not in a container of the feature's block" % s)
                        break
                if cn == "SourceLinkContainer":
                    s = show(a[1])
                    if "self._itemstore._parent" not in s:
                        bad = (p, "the source is not searched below the owning block (%s)" % s[:80])
                        break
            elif memb is not None and memb[1] is False:
                if p.terminal[0] != "raise":
                    bad = (p, "a failed membership test does not end in a refusal")
                    break
                nref += 1
        if bad is None and cn == "SourceLinkContainer":
            # the tree search must select by id (the lambda compares ids)
            # (a lambda, a nested function or an inline comparison -- any comparison of two `.id` values in the member
            # or in the helpers it calls in its own class)
            nodes = [f.node] + [g.node for g in M.funcs.values() if g.cls is not None and g.cls.name in (cn, "LinkContainer")
                                and g.node.name.startswith("_") and not g.node.name.startswith("__")]
            okl = any(isinstance(c_, ast.Compare) and sum(1 for x in ast.walk(c_) if isinstance(x, ast.Attribute) and x.attr == "id") >= 2
                      for nd in nodes for c_ in ast.walk(nd))
            if not okl:
                bad = (None, "the source-tree search does not compare ids")
        if bad:
            rep.bad(R1, key, bad[1], site=f.file + ":%d" % f.node.lineno, detail=describe_path(bad[0]) if bad[0] else None)
        elif not nlink or not nref:
            rep.bad(R1, key, "required mechanism not found: %d linking path(s), %d refusing path(s)" % (nlink, nref), site=f.file)
        else:
            rep.ok(R1, key, "%d linking paths all after a positive membership decision, %d refusals" % (nlink, nref))

    # ------------------------------------------------------------------ R1b: item stores of the link lists handed out
    blk = M.classes.get("Block")
    for cn, name, tb, f in surface(M, ENTITY_CLASSES, ("getters",)):
        made = [n for n in ast.walk(f.node) if isinstance(n, ast.Call) and isinstance(n.func, ast.Name)
                and n.func.id in M.classes and M.is_subclass(n.func.id, "LinkContainer")]
        if not made:
            continue
        key = "%s.%s" % (cn, name)
        for p in nctx.paths(f, cn):
            if not p.normal:
                continue
            rv = p.terminal[1]
            insts = [x for x in subterms(rv.t) if x and x[0] == "inst"]
            inst = insts[0] if insts else None
            if inst is None:
                hv = [v for (r, a), v in p.heap.items() if v.t and v.t[0] == "inst" and v.t[1] in M.classes
                      and M.is_subclass(v.t[1], "LinkContainer")]
                inst = hv[0].t if hv else None
            if inst is None:
                continue
            store = p.heap.get((inst, "_itemstore"))
            icls = p.heap.get((inst, "_itemclass"))
            if store is None or icls is None:
                rep.bad(R1, key, "cannot determine the item store of the link list", site=f.file)
                break
            st = store.t
            ok = st[0] == "attr" and st[1] == ("attr", ("self",), "_parent")
            owner_getter = M.lookup(blk, st[2], "getters") if (ok and blk is not None) else None
            same = False
            if owner_getter is not None:
                for q in nctx.paths(owner_getter, "Block"):
                    if not q.normal:
                        continue
                    for (r, a), v in q.heap.items():
                        if a == "_itemclass" and v.t == icls.t:
                            same = True
            rep.check(R1, key, bool(ok and same), "%s hands out a link list whose item store is %s (item class %s): not the owning "
                      "block's container of that class" % (key, show(st), show(icls.t)), site=f.file + ":%d" % f.node.lineno,
                      what="item store %s, item class %s" % (show(st), show(icls.t)))
            break

    # ------------------------------------------------------------------ R2
    container_identity(M, rep, R2, ctx, nctx)

    # ------------------------------------------------------------------ R3
    create_link_rule(M, rep, R3)
    cg = ctx.cg
    ncopy = 0
    for q, ops in sorted(cg.ops.items()):
        if q.startswith("nixio.cmd."):
            continue
        for o in ops:
            if o[0] == "raw" and o[1].split(".")[-1] == "copy" and o[1].split(".")[0] in ("grp", "obj", "file"):
                ncopy += 1
                cpq = {f_.qual for f_ in M.funcs.values() if f_.qual.split(":")[-1] == "H5Group.copy"}
                rep.check(R3, "h5py copy in " + q, q.split(":")[-1] == "H5Group.copy" or private_part_of(M, q, cpq),
                          "%s copies HDF5 objects: linking must never copy" % q)
    if not ncopy:
        rep.bad(R3, "h5py copy", "required mechanism not found: no HDF5 object copy at all (H5Group.copy)")
    soft = []
    for m in M.modules.values():
        for n in ast.walk(m.tree):
            if isinstance(n, ast.Attribute) and n.attr in ("SoftLink", "ExternalLink"):
                soft.append("%s:%d" % (m.relpath, n.lineno))
    rep.check(R3, "no soft/external links", not soft, "soft or external links are used: %s" % ", ".join(soft))

    # ------------------------------------------------------------------ R4
    f = nctx.member("RangeDimension", "ticks", "setters")
    if f is None:
        rep.bad(R4, "RangeDimension.ticks@set", "required mechanism not found")
    else:
        bad = None
        n = 0
        for p in nctx.paths(f, "RangeDimension"):
            if not p.normal:
                continue
            n += 1
            if presence(p, OWN, "link") is not False:
                bad = (p, "after setting explicit ticks the dimension may still be linked")
                break
            if not any(e.kind == "layer" and e.op == "H5Group.write_data" and e.recv.t == OWN and
                       e.key is not None and e.key.t == ("const", "ticks") for e in p.events):
                bad = (p, "the ticks setter does not write the ticks")
                break
        rep.check(R4, "RangeDimension.ticks@set", bad is None and n > 0, bad[1] if bad else "no normal path",
                  site=f.file + ":%d" % f.node.lineno, detail=describe_path(bad[0]) if bad else None)
    for cn in ("RangeDimension", "SetDimension"):
        for name in ("link_data_array", "link_data_frame"):
            f = nctx.member(cn, name)
            key = "%s.%s" % (cn, name)
            if f is None:
                rep.bad(R4, key, "required mechanism not found")
                continue
            bad = None
            n = 0
            for p in nctx.paths(f, cn):
                if not p.normal:
                    continue
                n += 1
                if cn == "RangeDimension" and presence(p, OWN, "ticks") is not False:
                    bad = (p, "after linking, explicit ticks may still be stored next to the link")
                    break
                mk = [e for e in p.events if e.kind == "layer" and e.op == "H5Group.create_link"]
                if not mk:
                    bad = (p, "no link is created")
                    break
                had = link_decision(p)
                rm = [e for e in p.events if e.kind == "layer" and e.op == "H5Group.delete" and e.recv.t == OWN and
                      e.key is not None and e.key.t == ("const", "link") and e.idx < mk[0].idx]
                if had is True and not rm:
                    bad = (p, "an existing link is not removed before the new one is created")
                    break
                tgt = mk[0].kw.get("target") or mk[0].args[0]
                if not params_of(tgt.t) & {"data_array", "data_frame"}:
                    bad = (p, "the link does not point to the given data object")
                    break
            rep.check(R4, key, bad is None and n > 0, bad[1] if bad else "no normal path",
                      site=f.file + ":%d" % f.node.lineno, detail=describe_path(bad[0]) if bad else None)

    # ------------------------------------------------------------------ R5
    # keys used by the linked objects' own accessors
    own_keys = {}
    for cn, attr in (("DataArray", "unit"), ("DataArray", "label"), ("DataFrame", "units")):
        g = nctx.member(cn, attr, "getters")
        ks = set()
        if g is not None:
            for p in nctx.paths(g, cn):
                if p.normal:
                    ks |= {x[3][1] for x in reads_of(p.terminal[1].t) if x[1] == "attr" and x[2] == OWN and x[3][0] == "const"}
        own_keys[(cn, attr)] = ks
        rep.check(R5, "key of %s.%s" % (cn, attr), len(ks) == 1, "%s.%s does not read exactly one storage key (%s)" % (cn, attr, sorted(ks)),
                  what=str(sorted(ks)))
    table = [("RangeDimension", "unit", {"DataArray": own_keys[("DataArray", "unit")], "DataFrame": own_keys[("DataFrame", "units")]}, "unit"),
             ("RangeDimension", "label", {"DataArray": own_keys[("DataArray", "label")], "DataFrame": None}, "label"),
             ("RangeDimension", "ticks", {"DataArray": {"data"}, "DataFrame": {"data"}}, "ticks"),
             ("SetDimension", "labels", {"DataArray": {"data"}, "DataFrame": {"data"}}, "labels")]
    for cn, attr, linked_keys, ownkey in table:
        g = nctx.member(cn, attr, "getters")
        key = "%s.%s" % (cn, attr)
        if g is None:
            rep.bad(R5, key, "required mechanism not found")
            continue
        bad = None
        nl = nu = 0
        for p in nctx.paths(g, cn):
            if not p.normal:
                continue
            had = link_decision(p)
            rds = reads_of(p.terminal[1].t) + [x for a, v in p.decisions for x in reads_of(a)]
            val_rds = reads_of(p.terminal[1].t)
            if had is True:
                nl += 1
                if not any(through_link(x) for x in val_rds):
                    bad = (p, "a linked dimension returns a value that is not read through the link")
                    break
                kind = decided(p, lambda a: a[0] == "eq" and a[2] == ("const", "DataArray") and a[1][0] == "rd")
                k = "DataArray" if kind is True else "DataFrame"
                want = linked_keys.get(k)
                got = {x[3][1] for x in val_rds if through_link(x) and x[3] is not None and x[3][0] == "const" and
                       x[1] in ("attr", "data") and x[3][1] not in ("index", "data_object_type")}
                if want and not (got & want):
                    bad = (p, "through the link the %s of a linked %s is read from key(s) %s, its own accessor uses %s" % (
                        attr, k, sorted(got), sorted(want)))
                    break
            elif had is False:
                alias = decided(p, lambda a: a[0] == "truthy" and a[1][0] in ("rawres", "lres", "call") and "len" in show(a[1]))
                if any(through_link(x) for x in val_rds):
                    bad = (p, "an unlinked dimension reads through a link")
                    break
                own = {x[3][1] for x in val_rds if x[2] == OWN and x[3][0] == "const"}
                if own and ownkey not in own:
                    bad = (p, "an unlinked dimension reads its %s from key(s) %s" % (attr, sorted(own)))
                    break
                if own:
                    nu += 1
        rep.check(R5, key, bad is None and nl > 0 and nu > 0, bad[1] if bad else
                  "required mechanism not found: %d linked / %d unlinked reading paths" % (nl, nu),
                  site=g.file + ":%d" % g.node.lineno, detail=describe_path(bad[0]) if bad else None,
                  what="%d linked, %d unlinked paths" % (nl, nu))
    for cn, attr in (("RangeDimension", "unit"), ("RangeDimension", "label")):
        s = nctx.member(cn, attr, "setters")
        key = "%s.%s@set" % (cn, attr)
        if s is None:
            rep.bad(R5, key, "required mechanism not found")
            continue
        bad = None
        nl = nu = 0
        for p in nctx.paths(s, cn):
            if not p.normal:
                continue
            had = link_decision(p)
            ws = [e for e in p.events if e.kind == "layer" and e.op == "H5Group.set_attr"]
            if not ws:
                bad = (p, "nothing is written")
                break
            w = ws[-1]
            via = any(x and x[0] == "lres" and x[1] in ("get_by_name", "open_group") and x[3] and x[3][0] == ("const", "link")
                      for x in subterms(w.recv.t))
            if had is True:
                nl += 1
                if not via:
                    bad = (p, "the %s of a linked dimension is written to the dimension itself, where the getter never looks" % attr)
                    break
            elif had is False:
                nu += 1
                if via or w.recv.t != OWN or w.key.t != ("const", attr):
                    bad = (p, "the %s of an unlinked dimension is not written to its own %r attribute" % (attr, attr))
                    break
        rep.check(R5, key, bad is None and nl > 0 and nu > 0, bad[1] if bad else "required mechanism not found",
                  site=s.file + ":%d" % s.node.lineno, detail=describe_path(bad[0]) if bad else None)
    accessor_use_rule(M, rep, R5, nctx)

    s = nctx.member("SetDimension", "labels", "setters")
    if s is None:
        rep.bad(R5, "SetDimension.labels@set", "required mechanism not found")
    else:
        bad = None
        nref = 0
        for p in nctx.paths(s, "SetDimension"):
            had = link_decision(p)
            if had is True:
                if p.normal or any(ctx.fx.is_write(e) for e in p.events):
                    bad = (p, "the labels of a linked set dimension can be overwritten")
                    break
                nref += 1
        rep.check(R5, "SetDimension.labels@set", bad is None and nref > 0, bad[1] if bad else "no refusal for linked dimensions",
                  site=s.file + ":%d" % s.node.lineno, detail=describe_path(bad[0]) if bad else None)


def link_values_table(M, rep, rid, nctx):
    """DimensionLink.values (array branch): exactly the -1 entry of the index becomes the running axis, every other entry is kept"""
    import ast
    f = nctx.member("DimensionLink", "values", "getters")
    if f is None:
        rep.bad(rid, "DimensionLink.values", "required mechanism not found")
        return
    from nixsa.dtable import TermEval, NOTHING, Unknown
    # form (a): one replacement at the position of -1
    repl = [n for n in ast.walk(f.node) if isinstance(n, ast.Assign) and isinstance(n.targets[0], ast.Subscript) and
            isinstance(n.targets[0].slice, ast.Call) and isinstance(n.targets[0].slice.func, ast.Attribute) and
            n.targets[0].slice.func.attr == "index"]
    if repl:
        n = repl[0]
        arg = n.targets[0].slice.args[0] if n.targets[0].slice.args else None
        try:
            argv = ast.literal_eval(arg)
        except Exception:
            argv = None
        okv = ast.unparse(n.value).replace(" ", "") in ("slice(None)", "slice(None,None)", "slice(None,None,None)")
        rep.check(rid, "DimensionLink.values", argv == -1 and okv, "the linked vector is selected by replacing the entry at index(%r) with %s; "
                  "required: the entry equal to -1 becomes the full axis" % (argv, ast.unparse(n.value)), site=f.file + ":%d" % n.lineno,
                  what="entry == -1 -> slice(None), all others kept")
        return
    # form (b): per-element expression
    bad = None
    seen = {}
    for p in nctx.paths(f, "DimensionLink"):
        if not p.normal:
            continue
        for x in subterms(p.terminal[1].t):
            if x and x[0] == "comp" and any(y and y[0] == "rd" and y[3] == ("const", "index") for y in subterms(x)):
                elt = x[2]
                el = [y for y in subterms(x) if y and y[0] == "elem"]
                dec = [(a, v) for a, v in p.decisions if any(y in el for y in subterms(a))]
                for val in (-1, 0, 1, 5):
                    te = TermEval(lambda t, val=val: val if (t and t[0] == "elem") else NOTHING)
                    try:
                        if all(te.atom(a) == v for a, v in dec):
                            got = te.ev(elt)
                            seen[val] = got
                            want = slice(None) if val == -1 else val
                            if got != want:
                                bad = (p, "an index entry %r is turned into %r; only the entry -1 may become the running axis" % (val, got))
                    except (Unknown, TypeError):
                        pass
    rep.check(rid, "DimensionLink.values", bad is None and len(seen) >= 3, bad[1] if bad else "cannot see how the linked vector is selected",
              site=f.file + ":%d" % f.node.lineno, detail=describe_path(bad[0]) if bad else None, what=str(seen))


def container_identity(M, rep, rid, ctx, nctx):
    """membership of an entity in a Container depends on the entity's id on every path that can answer True"""
    f = ctx.member("Container", "__contains__")
    if f is None:
        rep.bad(rid, "Container.__contains__", "required mechanism not found")
        return
    bad = None
    n = 0
    pname = f.node.args.args[1].arg
    for p in nctx.paths(f, "Container"):
        if not p.normal:
            continue
        ent = decided(p, lambda a: a[0] == "truthy" and a[1][0] == "hasattr")
        if ent is not True:
            continue
        rv = p.terminal[1]
        if is_const(rv) and rv.t[1] is False:
            continue
        n += 1
        terms = [rv.t] + [a for a, v in p.decisions]
        dep_id = any(x and x[0] == "rd" and x[1] == "attr" and x[3] == ("const", "entity_id") and
                     pname in params_of(x[2]) for t in terms for x in subterms(t))
        if not dep_id:
            bad = p
            break
    rep.check(rid, "Container.__contains__", bad is None and n > 0,
              "membership of an entity is decided without looking at its id (by name only): an entity of the same name "
              "from another parent is accepted as a member" if bad else "no entity-membership path",
              site=f.file + ":%d" % f.node.lineno, detail=describe_path(bad) if bad else None)
