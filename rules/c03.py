# -*- coding: utf-8 -*-
"""
C03 -- unique names, unique ids, agreeing lookups. Decided statically:
 R1  on every abstract path of every public creator (create_* / copy variants) the creation is preceded by a
     *name-only* membership test (H5Group.__contains__) of the very name on the very group the entity is created in,
     decided negative
 R2  an invalid name (contains '/') or empty type never reaches a storage write in Entity/Property creation
 R3  every entity_id written comes from uuid4 (create_id) or from an `oid` that passed is_uuid; the hdf5 layer's copy
     re-ids with create_id
 R4  every HDF5 group / file creation requests creation-order tracking+indexing; no other group-creating h5py API is
     used; positional access iterates the creation-order index, increasing, at the requested position
 R5  id-or-name dispatchers fall back to the name when the id search misses (names that look like UUIDs)
"""
import ast
from .common import Ctx, surface, api_key, describe_path, ENTITY_CLASSES
from nixsa.model import AnalysisError
from nixsa.px import explore, Config
from nixsa.px_core import Budget
from nixsa.values import show, is_const, subterms, params_of, vparams

CREATORS = [("File", "create_block"), ("File", "create_section"), ("File", "copy_section"),
            ("Block", "create_multi_tag"), ("Block", "create_tag"), ("Block", "create_source"), ("Block", "create_group"),
            ("Block", "create_data_array"), ("Block", "create_data_frame"), ("Source", "create_source"),
            ("Section", "create_section"), ("Section", "create_property"), ("Section", "copy_section")]


def creation_targets(ctx, p):
    """(event, group term, name term, kind) for every entity creation on the path"""
    out = []
    for e in p.events:
        if e.kind != "layer":
            continue
        m = e.op.split(".")[-1]
        fn = [q.split(":")[-1] for q in e.stack]
        if m == "open_group" and e.func and e.func.endswith(".create_new") and e.key is not None:
            out.append((e, e.recv.t, e.key.t, "create"))
        elif m == "create_dataset" and e.func and e.func.endswith("Property.create_new"):
            out.append((e, e.recv.t, e.key.t, "create"))
        elif m == "copy" and e.op.startswith("H5Group."):
            dest, cls, name = e.kw.get("dest"), e.kw.get("cls"), e.kw.get("name")
            if dest is not None and cls is not None and name is not None:
                out.append((e, ("copydest", dest.t, cls.t), name.t, "copy"))
    return out


FILE_ALIASES = {}


def canon_group(t):
    """canonical form of a container-group term: ('child', base, name) -- File keeps aliases of two children"""
    if t in FILE_ALIASES:
        return FILE_ALIASES[t]
    if t[0] == "lres" and t[1] == "open_group" and t[3]:
        base = t[2]
        if base == ("attr", ("self",), "_root"):
            base = ("attr", ("self",), "_h5group")
        return ("child", base, t[3][0])
    return t


def same_group(check_recv, target):
    if target[0] == "copydest":
        _, dest, cls = target
        return canon_group(check_recv) == ("child", dest, cls)
    return canon_group(check_recv) == canon_group(target)


def file_aliases(ctx):
    """File.__init__ stores two container groups in attributes: read the aliases off its abstract heap"""
    f = ctx.member("File", "__init__")
    if f is None:
        return
    for p in ctx.paths(f, "File"):
        if not p.normal:
            continue
        root = p.heap.get((("self",), "_root"))
        for (recv, attr), v in p.heap.items():
            if recv == ("self",) and v.t[0] == "lres" and v.t[1] == "open_group" and v.t[3] and root is not None \
                    and v.t[2] == root.t:
                FILE_ALIASES[("attr", ("self",), attr)] = ("child", ("attr", ("self",), "_h5group"), v.t[3][0])
        break


def name_table(M, rep, R8):
    from nixsa.dtable import TermEval, NOTHING, Unknown
    from nixsa.px import explore
    um = M.modules.get("nixio.util.util")
    f = um.funcs.get("check_entity_name") if um else None
    if f is None:
        rep.bad(R8, "util.check_entity_name", "required mechanism not found")
        return
    c = Ctx(M, coarse=False)
    c.cfg.compose = False
    c.cfg.opaque_modules = set()
    paths = explore(c.cfg, f, None, None, 2000)
    legal = ["a", "data array 1", "\u00e4\u00f6\u00fc \u00b5V", "x" * 300, ".raw", "..", ".5 mV step", "a.b", "0" * 32,
             "4a6f9c1e-8f43-4d2a-9c0e-3b8e7a1d2f55", " lead", "trail ", "a\\b", "-", "~tmp", "#1", "name:with:colons"]
    illegal = ["", "a/b", "/", "/abs", "trailing/"]
    for nm, want in [(x, True) for x in legal] + [(x, False) for x in illegal]:
        def leaf(t, nm=nm):
            if t == ("param", "name"):
                return nm
            return NOTHING

        def atomfn(a):
            if a[0] == "isinst":
                return "bytes" not in a[2] if "str" not in a[2] else True
            return NOTHING
        te = TermEval(leaf, atomfn=atomfn)
        hit = []
        for p in paths:
            ok = True
            for a, v in p.decisions:
                try:
                    r = te.atom(a)
                except Unknown as e:
                    raise AnalysisError("C03.R8: the name check depends on an unmodelled condition %s (%s)" % (show(a)[:120], e))
                except (TypeError, AttributeError, IndexError):
                    ok = False
                    break
                if r != v:
                    ok = False
                    break
            if ok:
                hit.append(p)
        key = "name %r" % (nm if len(nm) < 40 else nm[:12] + "...(%d chars)" % len(nm))
        if len(hit) != 1:
            rep.bad(R8, key, "%d rows of the name check's decision table apply" % len(hit), site=f.file)
            continue
        got = hit[0].normal
        rep.check(R8, key, got == want, "the name %r is %s; it is %s" % (
            nm[:60], "accepted" if got else "refused (%s)" % hit[0].terminal[1].cls, "a legal name (non-empty, no slash) and must be accepted"
            if want else "not a legal name and must be refused"), site=f.file + ":%d" % f.node.lineno)


def run(M, rep, tier, only=None):
    ctx = Ctx(M)
    R1 = rep.rule("C03.R1", "a name-only duplicate test on the destination group precedes every creation", floor=13,
                  technique="must-precede on all abstract paths (event order, receiver/key identity)")
    R2 = rep.rule("C03.R2", "invalid names / empty types never reach a storage write", floor=2,
                  technique="decision table of the creation entry points")
    R3 = rep.rule("C03.R3", "entity_id values come from uuid4 or a validated oid", floor=20,
                  technique="value provenance of every entity_id write on all abstract paths")
    R4 = rep.rule("C03.R4", "creation-order tracking on every group/file creation; positional access by creation index", floor=4,
                  technique="raw h5py event arguments")
    R5 = rep.rule("C03.R5", "id-or-name dispatch falls back to the name when the id search misses", floor=3,
                  technique="decision table of the dispatchers")

    R6 = rep.rule("C03.R6", "containers answer every lookup from the file (no remembered order / names / items)", floor=1,
                  technique="stateless-handle classification (see C02.R7)")
    from . import stateless
    from .common import CONTAINER_CLASSES
    n6 = stateless.run(M, rep, R6, only_classes=set(CONTAINER_CLASSES) | {"H5Group"})
    if not n6:
        rep.ok(R6, "containers", "no instance attribute is written outside the constructors")
    R8 = rep.rule("C03.R8", "every legal name (non-empty, no slash) passes the name check; empty names and names with a slash do not", floor=10,
                  technique="decision-table extraction of the name validation, evaluated on representative names")
    name_table(M, rep, R8)
    R10 = rep.rule("C03.R10", "length, iteration, indexing, name/id lookup and membership of a container all read the container's own group",
                   floor=8, technique="receiver of every storage event on all abstract paths of the container protocol")
    c10_ = Ctx(M, coarse=False)
    for cn10 in ("Container", "LinkContainer"):
        for nm10 in ("__len__", "__iter__", "__getitem__", "__contains__"):
            f10 = c10_.member(cn10, nm10)
            if f10 is None:
                continue
            bad10 = None
            try:
                ps10 = c10_.paths(f10, cn10, max_paths=6000)
            except Budget:
                continue
            for p in ps10:
                for e in p.events:
                    if e.kind == "layer" and e.recv is not None and e.op.split(".")[-1] in (
                            "get_by_name", "get_by_id", "get_by_pos", "get_by_id_or_name", "__contains__", "__iter__", "__len__") and \
                            not any(x == ("attr", ("self",), "_backend") for x in subterms(e.recv.t)) and \
                            any(x and x[0] == "attr" and x[1] == ("self",) for x in subterms(e.recv.t)):
                        bad10 = (p, e)
                for a, v in p.decisions:
                    if any(x == ("attr", ("self",), "_itemstore") for x in subterms(a)):
                        bad10 = bad10 or (p, None, show(a)[:80])
            if bad10 is not None and bad10[1] is None:
                rep.bad(R10, "%s.%s" % (cn10, nm10), "%s.%s decides what it returns by looking into the store the links point into (%s), not "
                        "into the list's own group: entries that iteration shows (e.g. linked nested sources) are not found by name" % (
                            cn10, nm10, bad10[2]), site=f10.file + ":%d" % f10.node.lineno, detail=describe_path(bad10[0]))
                continue
            rep.check(R10, "%s.%s" % (cn10, nm10), bad10 is None, "%s.%s looks an entry up in %s, not in the container's own group: what it finds "
                      "differs from what iteration, length and positional access of the same container show" % (
                          cn10, nm10, show(bad10[1].recv.t)[:60] if bad10 else ""), site=bad10[1].site if bad10 else None,
                      detail=describe_path(bad10[0]) if bad10 else None)
    R11 = rep.rule("C03.R11", "membership, length, iteration and lookup of the layer's group wrapper all see the group through the same "
                   "refreshing accessor", floor=1, technique="who-may-read a field over the layer class (shared with C02.R8)")
    from .c02 import group_readers_rule
    group_readers_rule(M, rep, R11)
    R9 = rep.rule("C03.R9", "lookup by id returns only a child whose stored entity_id was compared equal to the id asked for", floor=1,
                  technique="guard of every returning path of the layer's id lookup (raw mode)")
    hg9 = M.classes.get("H5Group")
    g9 = hg9.methods.get("get_by_id") if hg9 else None
    if g9 is None:
        rep.bad(R9, "H5Group.get_by_id", "required mechanism not found")
    else:
        rc9 = Config(M, mode="raw")
        rc9.compose = False
        bad9 = None
        n9 = 0
        pn = g9.node.args.args[1].arg
        for p in explore(rc9, g9, "H5Group", None, 4000):
            if not p.normal:
                continue
            n9 += 1
            ok9 = False
            for a, v in p.decisions:
                if v is True and a[0] in ("eq", "cmp") and any(x == ("param", pn) for x in subterms(a)) and \
                        any(x and ((x[0] == "rd" and x[3] == ("const", "entity_id")) or (x[0] in ("lres", "mcall") and
                                                                                         any(y == ("const", "entity_id") for y in subterms(x))))
                            for x in subterms(a)):
                    ok9 = True
                if v is True and a == ("isnone", ("param", pn)):
                    ok9 = True      # the comparison of a missing stored id (None) with an id of None
            if not ok9:
                bad9 = p
        rep.check(R9, "H5Group.get_by_id", bad9 is None and n9 > 0, "a path of the id lookup returns an object without having compared its "
                  "stored entity_id with the id asked for: an entity *named* like another entity's id is returned in its place",
                  site=g9.file + ":%d" % g9.node.lineno, detail=describe_path(bad9) if bad9 else None)
    R7 = rep.rule("C03.R7", "membership of an entity agrees with lookup by id (decided by the entity's id, not by its name alone)", floor=1,
                  technique="dependency of every True-answering path on the item's id (shared with C05.R2)")
    from .c05 import container_identity
    nctx7 = Ctx(M, coarse=False)
    container_identity(M, rep, R7, nctx7, nctx7)

    # ---------------------------------------------------------------- R1
    file_aliases(ctx)
    rep.stats["file_aliases"] = {show(k): show(v) for k, v in FILE_ALIASES.items()}
    for cn, name in CREATORS:
        f = ctx.member(cn, name)
        key = "%s.%s" % (cn, name)
        if f is None:
            rep.bad(R1, key, "required mechanism not found: %s" % key)
            continue
        paths = ctx.paths(f, cn)
        bad = None
        ncreate = 0
        for p in paths:
            tg = creation_targets(ctx, p)
            if not tg:
                continue
            # only the entity the API call itself creates (first creation on the path that uses the call's name)
            for e, grp, nm, kind in tg:
                if kind == "create" and len([q for q in e.stack if q.endswith(".create_new")]) and \
                        any(q.split(":")[-1].split(".")[-1].startswith("create_") and not q.endswith(".create_new")
                            for q in e.stack[1:-1]):
                    continue        # creation inside a nested public creator: checked when that one is the root
                ncreate += 1
                if any(x and x[0] == "call" and x[1] == "uuid4" for x in subterms(nm)):
                    continue        # an omitted name is replaced by a fresh uuid4: cannot collide
                found = False
                for c in p.events:
                    if c.idx >= e.idx:
                        break
                    if c.kind == "layer" and c.op == "H5Group.__contains__" and c.key is not None and c.key.t == nm \
                            and same_group(c.recv.t, grp):
                        found = True
                if not found:
                    others = [c for c in p.events if c.idx < e.idx and c.kind == "layer" and
                              c.op.split(".")[-1] in ("__contains__", "get_by_id", "get_by_id_or_name", "has_by_id")]
                    bad = (p, e, "no name-only membership test of %s on the group the entity is created in (%s) precedes "
                           "the creation%s" % (show(nm), show(grp)[:80],
                                               "; other lookups on this path: " + ", ".join(
                                                   "%s(%s, %s)" % (c.op, show(c.recv.t)[:40], show(c.key.t) if c.key else "") for c in others[:3]) if others else ""))
                    break
            if bad:
                break
        if bad:
            rep.bad(R1, key, bad[2], site=bad[1].site, detail=describe_path(bad[0], 40))
        elif ncreate == 0:
            rep.bad(R1, key, "required mechanism not found: no creating path", site=f.file)
        else:
            rep.ok(R1, key, "%d creations preceded by the duplicate test" % ncreate)

    # ---------------------------------------------------------------- R2
    for cn, nm, tparam in (("Entity", "create_new", "type_"), ("Property", "create_new", None)):
        f = ctx.member(cn, nm)
        key = "%s.%s" % (cn, nm)
        if f is None:
            rep.bad(R2, key, "required mechanism not found")
            continue
        paths = ctx.paths(f, "Block" if cn == "Entity" else cn)
        bad = None
        nref = 0
        for p in paths:
            slash = any(a[0] == "in" and a[1] == ("const", "/") and v for a, v in all_decisions(p))
            emptytype = tparam is not None and any(a == ("truthy", ("param", tparam)) and not v for a, v in all_decisions(p))
            if not (slash or emptytype):
                continue
            nref += 1
            ws = [e for e in p.events if ctx.fx.is_observable_write(e)]
            if p.normal or (ws and ws[0].idx < p.terminal[1].nevents):
                bad = (p, "a name containing '/'" if slash else "an empty type")
                break
        if bad:
            rep.bad(R2, key, "%s reaches a storage write / is accepted" % bad[1], site=f.file + ":%d" % f.node.lineno,
                    detail=describe_path(bad[0]))
        elif nref == 0:
            rep.bad(R2, key, "required mechanism not found: the name/type is never tested", site=f.file)
        else:
            rep.ok(R2, key, "%d refusing rows" % nref)

    # ---------------------------------------------------------------- R3
    for cn, name, tb, f in surface(M, ENTITY_CLASSES, ("methods",)):
        if not (name.startswith("create_") or name.startswith("copy_") or name.startswith("append_") or
                name in ("__setitem__", "create_new", "link_data_array", "link_data_frame")):
            continue
        key = api_key(cn, name, tb)
        if not ctx.cg.writes(f):
            continue
        try:
            paths = ctx.paths(f, cn, max_paths=30000)
        except Budget as e:
            raise AnalysisError("C03.R3: %s: %s" % (key, e))
        bad = None
        n = 0
        for p in paths:
            for e in p.events:
                if e.kind == "layer" and e.op.endswith(".set_attr") and ctx.fx.key(e) == "entity_id":
                    n += 1
                    v = e.kw.get("value")
                    vt = v.t if v is not None else ("?",)
                    from_uuid = any(x and x[0] == "call" and x[1] == "uuid4" for x in subterms(vt))
                    validated = False
                    if not from_uuid:
                        for a, val in all_decisions(p):
                            if a[0] == "xraise" and "UUID" in a[1] and not val and any(vt == y or vt in list(subterms(y)) for y in a[2]):
                                validated = True
                    if not (from_uuid or validated):
                        bad = (p, e, vt)
        if bad:
            rep.bad(R3, key, "entity_id is written from %s, which is neither a fresh uuid4 nor a value that passed is_uuid" % show(bad[2])[:100],
                    site=bad[1].site, detail=describe_path(bad[0], 40))
        elif n:
            rep.ok(R3, key, "%d entity_id writes" % n)
    # the layer's own copy (raw mode)
    rcfg = Config(M, mode="raw")
    rcfg.compose = False
    hg = M.classes.get("H5Group")
    cp = hg.methods.get("copy") if hg else None
    if cp is None:
        rep.bad(R3, "H5Group.copy", "required mechanism not found")
    else:
        bad = None
        n = 0
        for p in explore(rcfg, cp, "H5Group", None, 4000):
            for e in p.events:
                if e.kind == "raw" and e.op.startswith("attrs.") and e.kw["__effect__"].t[1] == "Wattr" and \
                        e.key is not None and e.key.t == ("const", "entity_id"):
                    n += 1
                    vt = e.args[1].t if len(e.args) > 1 else ("?",)
                    if not any(x and x[0] == "call" and x[1] == "uuid4" for x in subterms(vt)):
                        bad = (p, e, vt)
        rep.check(R3, "H5Group.copy", bad is None and n >= 2, "re-id of a copy does not use a fresh uuid4 for the root and "
                  "the nested groups (%d writes)" % n, site=cp.file, detail=describe_path(bad[0]) if bad else None)
        # every object below the copy that carries an entity_id is re-id'd, whatever its HDF5 kind (properties are
        # datasets): the visitor may skip an object only after finding that it has no entity_id attribute
        skip = None
        nvis = 0
        for p in explore(rcfg, cp, "H5Group", None, 4000):
            keep = [v for a, v in p.decisions if a[0] in ("truthy", "eq") and "keep_id" in show(a[1])]
            vis = [e for e in p.events if e.kind == "raw" and e.op.split(".")[-1] in ("visititems", "visit")]
            if not vis:
                continue
            entered = [v for a, v in p.decisions if a[0] == "iter" and a[1] == "visit"]
            if not entered or entered[0] is not True:
                continue
            nvis += 1
            inside = [e for e in p.events if e.idx > vis[0].idx]
            tested = any(e.kind == "raw" and e.op == "attrs.__contains__" and e.key is not None and
                         e.key.t == ("const", "entity_id") for e in inside)
            wrote = any(e.kind == "raw" and e.op.startswith("attrs.") and e.kw["__effect__"].t[1] == "Wattr" and
                        e.key is not None and e.key.t == ("const", "entity_id") for e in inside)
            if not tested and not wrote:
                skip = p
        rep.check(R3, "H5Group.copy/every nested id", skip is None and nvis > 0,
                  "the re-id walk over a copy skips an object without looking at its entity_id: nested entities of that kind "
                  "(properties are HDF5 datasets) keep the ids of the originals" if skip else "required mechanism not found: "
                  "no walk over the copied subtree", site=cp.file + ":%d" % cp.node.lineno,
                  detail=describe_path(skip) if skip else None)

    # ---------------------------------------------------------------- R4
    def order_flags_ok(p, plist_term):
        for e in p.events:
            if e.kind == "raw" and e.op == "plist.set_link_creation_order" and e.recv is not None and e.recv.t == plist_term:
                k = show(e.key.t) if e.key is not None else ""
                if "CRT_ORDER_TRACKED" in k and "CRT_ORDER_INDEXED" in k and "|" in k:
                    return True
        return False
    sites = []
    for q, f in sorted(M.funcs.items()):
        ops = ctx.cg.ops.get(q, ())
        if not any(o[0] == "raw" and o[1] in ("h5py.h5g.create", "h5py.h5f.create") for o in ops):
            continue
        if any(o[0] == "raw" and o[1] in ("h5py.h5g.create", "h5py.h5f.create") for g in getattr(f, "nested", {}).values()
               for o in ctx.cg.ops.get(g.qual, ())):
            pass
        cls = f.cls.name if f.cls else None
        acfg = Config(M, mode="raw")
        acfg.compose = False
        acfg.all_branches = True
        paths = explore(acfg, f, cls, None, 100)
        bad = None
        n = 0
        for p in paths:
            for e in p.events:
                if e.kind == "raw" and e.op in ("h5py.h5g.create", "h5py.h5f.create") and e.func == q:
                    n += 1
                    pl = e.kw.get("gcpl") if e.op.endswith("h5g.create") else e.kw.get("fcpl")
                    if pl is None:
                        bad = (p, e, "no creation property list is passed")
                    elif not order_flags_ok(p, pl.t):
                        bad = (p, e, "the creation property list does not request CRT_ORDER_TRACKED|CRT_ORDER_INDEXED")
        if n:
            rep.check(R4, q.split(":")[-1], bad is None, "%s: %s -- positional order would not be creation order" % (
                q.split(":")[-1], bad[2] if bad else ""), site=bad[1].site if bad else None,
                detail=describe_path(bad[0]) if bad else None, what="%d creation(s) with order tracking" % n)
    for q, ops in sorted(ctx.cg.ops.items()):
        for o in ops:
            if o[0] == "raw" and o[1].split(".")[-1] in ("create_group", "require_group") and q.startswith("nixio.") \
                    and not q.startswith("nixio.cmd.explore"):
                rep.bad(R4, q.split(":")[-1] + ":" + o[1], "%s creates a group with %s (no creation-order tracking)" % (q, o[1]))
    gp = hg.methods.get("get_by_pos") if hg else None
    if gp is None:
        rep.bad(R4, "H5Group.get_by_pos", "required mechanism not found")
    else:
        ok = False
        why = "no links.iterate call"
        for p in explore(rcfg, gp, "H5Group", None, 2000):
            for e in p.events:
                if e.kind == "raw" and e.op.endswith(".iterate"):
                    it, od, ix = e.kw.get("idx_type"), e.kw.get("order"), e.kw.get("idx")
                    s_it, s_od = show(it.t) if it else "", show(od.t) if od else ""
                    if "INDEX_CRT_ORDER" not in s_it:
                        why = "iterates index %s instead of the creation-order index" % s_it
                    elif "ITER_INC" not in s_od:
                        why = "iterates in order %s instead of increasing" % s_od
                    elif ix is None or ix.t != ("param", "pos"):
                        why = "does not start at the requested position"
                    else:
                        ok = True
        rep.check(R4, "H5Group.get_by_pos", ok, "get_by_pos " + why, site=gp.file + ":%d" % gp.node.lineno)

    # ---------------------------------------------------------------- R5
    for cn, nm in (("H5Group", "get_by_id_or_name"), ("H5Group", "has_by_id"), ("H5Group", "delete")):
        f = hg.methods.get(nm) if hg else None
        key = "%s.%s" % (cn, nm)
        if f is None:
            rep.bad(R5, key, "required mechanism not found")
            continue
        bad = None
        for p in explore(rcfg, f, "H5Group", None, 6000):
            isid = None
            for a, v in p.decisions:
                if a[0] == "xraise" and "UUID" in a[1]:
                    isid = not v
            if not isid:
                continue
            byname = [e for e in p.events if e.kind == "raw" and e.op in ("grp.__contains__", "grp.__getitem__", "grp.__delitem__",
                                                                          "obj.__contains__", "obj.__getitem__", "obj.__delitem__")
                      and e.key is not None and "id_or_name" in params_of(e.key.t)]
            miss = (p.terminal[0] == "raise" and p.terminal[1].cls == "KeyError") or \
                   (p.terminal[0] == "return" and p.terminal[1].t == ("const", False))
            if miss and not byname:
                bad = p
        rep.check(R5, key, bad is None, "%s: an argument that parses as a UUID is only searched among ids; an entity *named* "
                  "like a UUID cannot be addressed by that name" % key, site=f.file + ":%d" % f.node.lineno,
                  detail=describe_path(bad) if bad else None)


def all_decisions(p):
    for a, v in p.decisions:
        yield a, v
    todo = list(p.notes)
    while todo:
        n = todo.pop()
        if n[0] == "outcome":
            for a, v in n[4]:
                yield a, v
            if len(n) > 5:
                todo.extend(n[5])
