# -*- coding: utf-8 -*-
"""
C15 -- calibration is applied on every read and never touches the stored values. Decided statically:
 R1  single funnel: in every read member of arrays, views and tags, every read of an array's "data" dataset happens
     inside DataArray._read_data (the calibrating override); nothing else in the package reads that dataset
 R2  effect-free: DataArray._read_data / apply_polynomial perform no storage write; the setters of the two calibration
     attributes write only their own keys (never "data")
 R3  what is modified in place is a fresh array made in the same call (astype / copy), never the object read from HDF5
 R4  guard table: calibration is applied iff there are coefficients or a (truthy) origin; a calibrated result is the
     conversion to double of the raw read; without calibration the raw read is returned as it is
 R5  order and callee: the origin is subtracted first, then numpy.polynomial.polynomial.polyval(data, coefficients)
     (ascending coefficients) is applied iff there are coefficients
 R6  the calibration attributes are read from storage on every read (no per-handle memory), shared with C02.R7
"""
from .common import io_names, Ctx, surface, api_key, describe_path
from nixsa.values import show, is_const, subterms, params_of
from nixsa.px_core import Budget
from . import stateless

READ_MEMBERS = [("DataArray", "__getitem__"), ("DataArray", "read_direct"), ("DataArray", "__iter__"),
                ("DataArray", "__array__"), ("DataView", "__getitem__"), ("DataView", "read_direct"), ("DataView", None),
                ("DataView", "__iter__")]


def is_data_read(e):
    if e.kind != "layer":
        return False
    m = e.op.split(".")[-1]
    if m == "read_data" and e.recv is not None:
        r = e.recv.t
        return r[0] == "lres" and r[1] == "get_dataset" and r[3] and r[3][0] == ("const", "data")
    if m == "get_data" and e.key is not None and e.key.t == ("const", "data"):
        return True
    return False


RAW_VALUE_OPS = ("read_direct", "write_direct", "astype", "__array__", "value", "fields", "iter_chunks")


def raw_value_access_rule(cg, rep, R):
    """no member of the array / view / tag classes transfers element values through the raw h5py handle: that would bypass
    the calibration, the layer's text conversion and the layer's region handling (shared with C01)"""
    n = 0
    for q, ops in sorted(cg.ops.items()):
        short = q.split(":")[-1]
        if short.split(".")[0] not in ("DataArray", "DataSet", "DataView", "Tag", "MultiTag", "BaseTag", "Feature"):
            continue
        n += 1
        hit = False
        for o in ops:
            if o[0] == "raw" and o[1].split(".")[-1] in RAW_VALUE_OPS or \
                    (o[0] == "raw" and o[1].split(".")[0] in ("ds",) and o[1].split(".")[-1] in ("__getitem__", "__setitem__")):
                hit = True
                rep.bad(R, "raw reader " + short, "%s transfers stored values through the raw h5py object (%s): neither calibration nor the "
                        "layer's text conversion is applied on this path" % (short, o[1]))
        if not hit:
            rep.ok(R, "raw reader " + short)
    return n


def view_transform(c):
    """DataView's index transformation: by name, else the private helper both DataView._read_data and _write_data call"""
    from .common import private_helper
    return private_helper(c, "DataView", "_transform_coordinates", [("DataView", io_names(c)[0], "methods"), ("DataView", io_names(c)[1], "methods")],
                          pick=lambda h: h.cls is not None and h.cls.name == "DataView")


def run(M, rep, tier, only=None):
    ctx = Ctx(M, coarse=False)
    ctx.cfg.compose = False
    RD, WR = io_names(ctx)
    R1 = rep.rule("C15.R1", "every read of an array's data passes the calibrating override", floor=6,
                  technique="stack of every data-read event on all abstract paths of the read members; who-may-read over the call graph")
    R2 = rep.rule("C15.R2", "calibration never writes storage; calibration setters never touch the data", floor=3,
                  technique="event absence on all abstract paths; written keys")
    R3 = rep.rule("C15.R3", "the array modified in place is a fresh copy", floor=1, technique="provenance of the mutated term")
    R4 = rep.rule("C15.R4", "calibrate iff coefficients or origin; calibrated reads are doubles; otherwise the raw read", floor=4,
                  technique="decision table over (coefficients present, origin truthy) from all abstract paths")
    R5 = rep.rule("C15.R5", "origin subtraction first, then ascending-coefficient polyval", floor=1,
                  technique="event order and callee identity")
    R6 = rep.rule("C15.R6", "calibration attributes are not remembered on the handle", floor=2,
                  technique="stateless-handle classification (see C02.R7)")

    # ---------------------------------------------------------------- R1
    # (composed exploration: callee-internal decisions are merged by outcome, the storage events and their call stacks stay)
    rctx = Ctx(M, sig_mode="full", coarse=False)
    rctx.cfg.sig_keep = lambda e: e.kind in ("layer", "raw")
    tc = view_transform(rctx)
    if tc is not None:
        rctx.cfg.opaque[tc.qual] = ("py", "tuple")      # the index transformation (C06.R2) reads no data
    for cn, name in READ_MEMBERS:
        name = name or RD
        f = ctx.member(cn, name)
        if f is None:
            if name in ("__array__", "get_slice", "__iter__", "read_direct"):
                continue
            rep.bad(R1, "%s.%s" % (cn, name), "required mechanism not found")
            continue
        key = "%s.%s" % (cn, name)
        bad = None
        nread = 0
        try:
            paths = rctx.paths(f, cn, max_paths=8000)
        except Budget:
            continue
        for p in paths:
            for e in p.events:
                if is_data_read(e):
                    nread += 1
                    if not any(q.endswith("DataArray." + RD) for q in e.stack):
                        bad = (p, e)
        rep.check(R1, key, bad is None and nread > 0, "%s reads the stored values without going through DataArray._read_data: "
                  "calibration is not applied on this read path" % key if bad else "%s never reads the data" % key,
                  site=bad[1].site if bad else f.file, detail=describe_path(bad[0]) if bad else None,
                  what="%d data reads, all inside DataArray._read_data" % nread)
    # who else reads a dataset called "data" of an array group
    cg = Ctx(M).cg
    allowed = {"DataSet." + RD, "DataArray." + RD, "H5Group.get_data", "H5DataSet.read_data"}
    for q, ops in sorted(cg.ops.items()):
        short = q.split(":")[-1]
        if q.startswith("nixio.cmd.") or short.split(".")[0] in ("DataFrame", "H5Group", "H5DataSet", "Property"):
            continue
        for o in ops:
            if o[0] == "layer" and o[1] in ("H5DataSet.read_data",) or (o[0] == "layer" and o[1] == "H5Group.get_data" and o[2] == "data"):
                ok = short in allowed or short.startswith("DimensionLink.") or short.startswith("RangeDimension.")
                rep.check(R1, "reader " + short, ok, "%s reads array data directly (bypasses the calibrating read funnel)" % short)

    raw_value_access_rule(cg, rep, R1)

    # ---------------------------------------------------------------- R2..R5 on DataArray._read_data
    f = ctx.member("DataArray", RD)
    if f is None:
        rep.bad(R4, "DataArray._read_data", "required mechanism not found")
        return
    paths = ctx.paths(f, "DataArray")
    wr = None
    for p in paths:
        for e in p.events:
            if ctx.fx.is_write(e):
                wr = (p, e)
    rep.check(R2, "DataArray._read_data", wr is None, "reading writes storage (%s): stored raw values can change" % (
        wr[1].brief() if wr else ""), site=wr[1].site if wr else None, detail=describe_path(wr[0]) if wr else None)
    for attr in ("polynom_coefficients", "expansion_origin"):
        s = ctx.member("DataArray", attr, "setters")
        if s is None:
            rep.bad(R2, "DataArray.%s@set" % attr, "required mechanism not found")
            continue
        bad = None
        for p in ctx.paths(s, "DataArray"):
            for e in p.events:
                if ctx.fx.is_observable_write(e) and ctx.fx.key(e) not in (attr, "updated_at"):
                    bad = (p, e)
        rep.check(R2, "DataArray.%s@set" % attr, bad is None, "setting %s also writes %r" % (attr, ctx.fx.key(bad[1]) if bad else ""),
                  site=bad[1].site if bad else None, detail=describe_path(bad[0]) if bad else None)

    # coefficients are removed only for None / an empty list, stored otherwise (an all-zero polynomial is a calibration)
    from nixsa.dtable import TermEval, NOTHING, Unknown
    sset = ctx.member("DataArray", "polynom_coefficients", "setters")
    if sset is not None:
        sp = ctx.paths(sset, "DataArray")
        # the coefficients are stored as double precision whatever the numbers look like: an element type inferred from the first
        # value (or kept from an earlier assignment) truncates a later fractional calibration
        nodbl = None
        nw = 0
        for p in sp:
            for e in p.events:
                if e.kind == "layer" and e.op == "H5Group.write_data" and ctx.fx.key(e) == "polynom_coefficients":
                    nw += 1
                    ts = [a.t for a in e.args[2:]] + [v.t for k_, v in e.kw.items() if k_ in ("dtype", "datatype", "dt")]
                    if not any(("double" in show(t).lower() or "float64" in show(t).lower()) for t in ts):
                        nodbl = (p, e)
        rep.check(R2, "polynom_coefficients/stored as double", nw > 0 and nodbl is None,
                  "the coefficients are written without the double-precision element type: the layer then infers the type from the "
                  "first coefficient / keeps the type of the existing data set, and fractional coefficients are truncated" if nodbl else
                  "required mechanism not found: the setter never writes the coefficients", site=nodbl[1].site if nodbl else sset.file,
                  detail=describe_path(nodbl[0]) if nodbl else None)
        for val in (None, (), [], (0.0,), (0, 0), (1.0, 2.0), (0.0, 3.0)):
            pname = sset.params[1]
            te = TermEval(lambda t, val=val, pname=pname: val if t == ("param", pname) else (
                True if t == ("attr", ("attr", ("self",), "_file"), "_auto_update_timestamps") or (t[0] == "rd" and t[1] == "child") else NOTHING))
            hit = []
            for p in sp:
                try:
                    if all(te.atom(a) == v for a, v in p.decisions):
                        hit.append(p)
                except Unknown as e:
                    from nixsa.model import AnalysisError
                    raise AnalysisError("C15.R2: the coefficient setter depends on an unmodelled condition (%s)" % e)
                except (TypeError, AttributeError):
                    pass
            key = "polynom_coefficients = %r" % (val,)
            if len(hit) != 1:
                rep.bad(R2, key, "%d rows of the setter's decision table apply" % len(hit), site=sset.file)
                continue
            p = hit[0]
            wrote = any(e.kind == "layer" and e.op == "H5Group.write_data" and ctx.fx.key(e) == "polynom_coefficients" for e in p.events)
            deleted = any(e.kind == "layer" and e.op.split(".")[-1] in ("delete", "__delitem__") and ctx.fx.key(e) == "polynom_coefficients" for e in p.events)
            want_store = val is not None and len(val) > 0
            rep.check(R2, key, (wrote and not deleted) == want_store or (not want_store and not wrote), "assigning %r %s the coefficients; required: %s" % (
                val, "stores" if wrote else ("removes" if deleted else "does nothing with"), "store them" if want_store else "remove them"),
                site=sset.file + ":%d" % sset.node.lineno, detail=describe_path(p))

    bad3 = bad4 = bad5 = None
    cells = {}
    for p in paths:
        if not p.normal:
            continue
        coeff = origin = None
        for a, v in p.decisions:
            if a[0] == "truthy":
                s = show(a[1])
                if "polynom_coefficients" in s and a[1][0] == "call" and a[1][1] == "len" and coeff is None:
                    coeff = v
                elif "expansion_origin" in s and origin is None:
                    origin = v
        muts = [e for e in p.events if e.kind == "local" and e.op == "setitem"]
        calibrated = bool(muts)
        rt = p.terminal[1].t
        want = bool(coeff) or bool(origin)
        cells[(bool(coeff), bool(origin))] = calibrated
        if coeff is None and origin is None and calibrated:
            bad4 = (p, "calibration is applied without looking at the coefficients / origin")
        elif not calibrated and (coeff is not False or origin is not False):
            # the raw read is the answer only when the array was found to have NO coefficients and NO origin -- whatever values
            # the coefficients have (an identity polynomial is still a calibration: the result is double precision)
            bad4 = (p, "a read returns the raw values without having found the coefficients absent and the origin unset (coefficients "
                    "%s, origin %s on this path): a calibrated array is read back in its stored element type" % (
                        {None: "not consulted", True: "present", False: "absent"}[coeff], {None: "not consulted", True: "set", False: "unset"}[origin]))
        elif calibrated != want:
            bad4 = (p, "with coefficients %s and origin %s the read is %scalibrated" % (
                "present" if coeff else "absent", "set" if origin else "unset/zero", "" if calibrated else "not "))
        if calibrated:
            # R3: mutated object is fresh and is what is returned
            for e in muts:
                b = e.recv.t
                fresh = (b[0] == "mcall" and b[1] in ("astype", "copy")) or (
                    b[0] == "call" and b[1] in ("numpy.array", "numpy.copy", "np.array") and
                    not any(isinstance(x, tuple) and x and x[0] == "kw" and x[1] == "copy" for x in b[2]))
                if not fresh:
                    bad3 = (p, "the in-place calibration works on %s, which is not a fresh copy made in this call" % show(b)[:80])
                if b != rt:
                    bad3 = (p, "the calibrated array is not what the read returns")
            isd = lambda x: "double" in show(x).lower() or "float64" in show(x).lower()
            dbl = (rt[0] == "mcall" and rt[1] == "astype" and any(isd(x) for x in rt[3])) or (
                rt[0] == "call" and rt[1] in ("numpy.array", "numpy.asarray", "numpy.asfarray") and any(
                    isinstance(x, tuple) and x and x[0] == "kw" and x[1] == "dtype" and isd(x[2]) for x in rt[2]))
            if not dbl:
                bad4 = (p, "a calibrated read is not (unconditionally) converted to double precision: %s" % show(rt)[:100])
            # R5
            sub = muts[0]
            val = sub.args[0].t if sub.args else None
            if not (val and val[0] == "bin" and val[1] == "-" and "expansion_origin" in show(val[3]) or
                    (val and val[0] == "bin" and val[1] == "-" and is_const(type("V", (), {"t": val[3]})()) and val[3][1] == 0.0)):
                if not (val and val[0] == "bin" and val[1] == "-"):
                    bad5 = (p, "the first in-place step is not the subtraction of the expansion origin")
            pv = [e for e in p.events if e.kind == "ext" and e.op.endswith("polyval")]
            cdec = [v for a, v in p.decisions if a[0] == "truthy" and a[1][0] == "call" and a[1][1] == "tuple"
                    and "polynom_coefficients" in show(a[1])]
            has_c = coeff if not cdec else cdec[-1]
            if has_c and not pv:
                bad5 = (p, "coefficients are present but no polynomial is evaluated")
            for e in pv:
                if e.op != "numpy.polynomial.polynomial.polyval":
                    bad5 = (p, "%s is not the ascending-coefficient numpy.polynomial.polynomial.polyval" % e.op)
                elif e.idx < sub.idx:
                    bad5 = (p, "the polynomial is evaluated before the origin is subtracted")
                elif len(e.args) < 2 or "polynom_coefficients" not in show(e.args[1].t) or "polynom_coefficients" in show(e.args[0].t):
                    bad5 = (p, "polyval is not called as polyval(data, coefficients)")
        else:
            if any(x and x[0] == "mcall" and x[1] == "astype" for x in subterms(rt)):
                bad4 = (p, "an uncalibrated read is converted to another element type")
    key = "DataArray._read_data"
    rep.check(R3, key, bad3 is None, bad3[1] if bad3 else "", site=f.file + ":%d" % f.node.lineno,
              detail=describe_path(bad3[0]) if bad3 else None)
    for c, o in ((False, False), (False, True), (True, False), (True, True)):
        have = cells.get((c, o))
        rep.check(R4, "coefficients=%s,origin=%s" % (c, o), bad4 is None and have == (c or o),
                  bad4[1] if bad4 else "no path for this case (calibrated=%s)" % have, site=f.file + ":%d" % f.node.lineno,
                  detail=describe_path(bad4[0]) if bad4 else None, what="calibrated=%s" % have)
    rep.check(R5, key, bad5 is None, bad5[1] if bad5 else "", site=f.file + ":%d" % f.node.lineno,
              detail=describe_path(bad5[0]) if bad5 else None)
    # ---------------------------------------------------------------- R6
    stateless.run(M, rep, R6, only_classes={"DataArray", "DataSet", "DataView"})
