# -*- coding: utf-8 -*-
"""
C11 -- open modes and version gating. Decided statically:
 R1  can_read / can_write: complete decision tables over all 27 orderings of (file, library) version
     components plus arity cases, compared with the statement
 R2  _check_header: format tag x mode x version orderings x id validity
 R3  map_file_mode: mode -> HDF5 access flag table (oracle: HDF5 flag semantics)
 R4  File.__init__: (file exists?, mode) -> refuse / create-truncate+header / open with mapped flag
 R5  h5py file open/create calls occur only in File.__init__ (and the stand-alone upgrade tool)
"""
import itertools
from .common import Ctx, describe_path
from nixsa.model import AnalysisError
from nixsa.px import explore
from nixsa.layer import layer_config
from nixsa.dtable import TermEval, NOTHING, select, outcome, unique_outcome, Unknown
from nixsa.values import subterms, show, is_const
from nixsa import tables as T


def lib_version(M):
    m = M.modules.get("nixio.file")
    if m is None or "HDF_FF_VERSION" not in m.assigns:
        raise AnalysisError("nixio.file.HDF_FF_VERSION not found")
    import ast
    try:
        v = ast.literal_eval(m.assigns["HDF_FF_VERSION"])
    except Exception:
        raise AnalysisError("HDF_FF_VERSION is not a literal")
    return tuple(v)


def mk_eval(version, fmt="nix", mode=None, idvalid=True, exists=True, fileid="x"):
    def is_rd(t, key):
        return t[0] == "rd" and t[1] == "attr" and t[3] == ("const", key)

    def leaf(t):
        if t[0] == "call" and t[1] == "tuple" and len(t[2]) == 1 and is_rd(t[2][0], "version"):
            return tuple(version)
        if is_rd(t, "version"):
            return tuple(version)
        if is_rd(t, "format"):
            return fmt
        if is_rd(t, "id"):
            return fileid
        if t == ("param", "mode"):
            return mode
        return NOTHING

    def atomfn(a):
        if a[0] == "xraise" and "UUID" in a[1]:
            return not idvalid
        if a[0] == "truthy" and a[1][0] == "call" and str(a[1][1]).endswith("path.exists"):
            return exists
        if a[0] == "truthy" and a[1][0] == "not" and a[1][1][0] == "call" and str(a[1][1][1]).endswith("path.exists"):
            return not exists
        return NOTHING
    return TermEval(leaf, atomfn=atomfn)


def grid(lib):
    for d in itertools.product((-1, 0, 1), repeat=3):
        yield d, tuple(l + x for l, x in zip(lib, d))


def run(M, rep, tier, only=None):
    cfg = layer_config(M)
    cfg.compose = False
    lib = lib_version(M)
    fm = M.modules["nixio.file"]
    R1 = rep.rule("C11.R1", "can_read/can_write decision tables over all version orderings", floor=58,
                  technique="decision-table extraction + exhaustive comparison with the spec table")
    R2 = rep.rule("C11.R2", "_check_header dispatch: format tag, mode, version gate, file id", floor=100,
                  technique="decision-table extraction + exhaustive comparison with the spec table")
    R3 = rep.rule("C11.R3", "mode -> HDF5 access flag table", floor=4, technique="decision table vs HDF5 flag semantics")
    R4 = rep.rule("C11.R4", "open/create decision of File.__init__", floor=6,
                  technique="all abstract paths: events before the first h5py file call")
    R5 = rep.rule("C11.R5", "h5py file open/create only in File.__init__", floor=1, technique="resolved call graph: who-may-call")

    # ---------------- R1
    for fname, spec in (("can_write", lambda d: d == (0, 0, 0)), ("can_read", lambda d: d[0] == 0 and d[1] <= 0)):
        f = fm.funcs.get(fname)
        if f is None:
            rep.bad(R1, fname, "required mechanism not found: nixio.file.%s" % fname)
            continue
        paths = explore(cfg, f, None, None, 2000)
        for d, ver in grid(lib):
            te = mk_eval(ver)
            out, row = unique_outcome(paths, te, fname)
            want = ("return", bool(spec(d)))
            rep.check(R1, "%s%s" % (fname, d), out == want,
                      "%s for file version %s (library %s) gives %s, the statement requires %s" % (fname, ver, lib, out, want),
                      site=f.file + ":%d" % f.node.lineno, detail=describe_path(row), what="%s -> %s" % (ver, out))
        for ver in ((1, 2), (1, 2, 1, 0)):
            out, row = unique_outcome(paths, mk_eval(ver), fname)
            rep.check(R1, "%s.arity%d" % (fname, len(ver)), out[0] == "raise",
                      "%s accepts a version of arity %d" % (fname, len(ver)), site=f.file, what=str(out))

    # ---------------- R2
    F = M.classes.get("File")
    from .common import private_helper
    ch = private_helper(Ctx(M), "File", "_check_header", [("File", "__init__", "methods")],
                        pick=lambda h: [a.arg for a in h.node.args.args][1:] == ["mode"]) if F else None
    if ch is None:
        rep.bad(R2, "File._check_header", "required mechanism not found")
    else:
        paths = explore(cfg, ch, "File", None, 5000)
        modes = mode_values(M)
        for fmt in ("nix", "hdf"):
            for mname, mval in modes.items():
                for d, ver in grid(lib):
                    for idvalid in (True, False):
                        te = mk_eval(ver, fmt=fmt, mode=mval, idvalid=idvalid)
                        out, row = unique_outcome(paths, te, "_check_header")
                        if fmt != "nix":
                            want = ("raise", "InvalidFile")
                        elif mname == "ReadWrite" and d != (0, 0, 0):
                            want = ("raise", "RuntimeError")
                        elif mname == "ReadOnly" and not (d[0] == 0 and d[1] <= 0):
                            want = ("raise", "RuntimeError")
                        elif ver >= (1, 2, 0) and not idvalid:
                            want = ("raise", "RuntimeError")
                        else:
                            want = ("return", None)
                        key = "%s/%s/%s/%s" % (fmt, mname, d, "id" if idvalid else "noid")
                        rep.check(R2, key, out == want,
                                  "header check for format=%r mode=%s version=%s id %s gives %s, required %s" % (
                                      fmt, mname, ver, "valid" if idvalid else "invalid", out, want),
                                  site=ch.file + ":%d" % ch.node.lineno, detail=describe_path(row))

    # ---------------- R3
    mf = fm.funcs.get("map_file_mode")
    want_flag = {"ReadOnly": "ACC_RDONLY", "ReadWrite": "ACC_RDWR", "Overwrite": "ACC_TRUNC"}
    if mf is None:
        rep.bad(R3, "map_file_mode", "required mechanism not found")
    else:
        paths = explore(cfg, mf, None, None, 200)
        modes = mode_values(M)
        for mname, mval in list(modes.items()) + [("<other>", "zz")]:
            out, row = unique_outcome(paths, mk_eval(lib, mode=mval), "map_file_mode")
            if mname == "<other>":
                rep.check(R3, mname, out[0] == "raise", "an unknown mode is mapped to %s instead of being refused" % (out,),
                          site=mf.file)
                continue
            flag = str(out[1]).split(".")[-1].rstrip("')") if out[0] == "return" else None
            ok = flag == want_flag[mname]
            sem = T.H5F_FLAGS.get(flag)
            rep.check(R3, mname, ok, "mode %s maps to %s; HDF5 semantics require %s (%s)" % (
                mname, out, want_flag[mname], "read-only must forbid writes, only overwrite may truncate"),
                site=mf.file + ":%d" % mf.node.lineno, what="%s -> %s %s" % (mname, flag, sem))

    # ---------------- R4
    init = F.methods.get("__init__") if F else None
    if init is None:
        rep.bad(R4, "File.__init__", "required mechanism not found")
    else:
        c4 = Ctx(M)
        paths = explore(cfg, init, "File", None, 20000)
        modes = mode_values(M)
        inv = {v: k for k, v in modes.items()}
        seen = {}
        for p in paths:
            ex = None
            mode = None
            nots = set()
            for a, v in p.decisions:
                if a[0] == "truthy" and "path.exists" in show(a[1]):
                    neg = a[1][0] == "not"
                    ex = (not v) if neg else v
                if a[0] == "eq" and a[1] == ("param", "mode") and a[2][0] == "const":
                    if v:
                        mode = inv.get(a[2][1], a[2][1])
                    else:
                        nots.add(inv.get(a[2][1], a[2][1]))
            fev = [e for e in p.events if e.kind == "raw" and e.op in ("h5py.h5f.create", "h5py.h5f.open")]
            hdr = [e for e in p.events if c4.fx.is_write(e) and c4.fx.key(e) in ("format", "version")]
            cell = (ex, mode, tuple(sorted(nots)))
            first = fev[0] if fev else None
            flags = show(first.kw["flags"].t) if first is not None and "flags" in first.kw else None
            kind = first.op.split(".")[-1] if first is not None else None
            seen.setdefault(cell, set()).add((kind, flags, bool(hdr), p.terminal[0] if first is None else "-"))
            key = "exists=%s,mode=%s%s" % (ex, mode, (",not " + "/".join(sorted(nots))) if nots and mode is None else "")
            possible = set(modes) - nots if mode is None else {mode}
            for m in sorted(possible):
                if ex is None:
                    continue
                if not ex and m == "ReadOnly":
                    ok = first is None and p.terminal[0] == "raise"
                    msg = "a missing file opened read-only is not refused before touching HDF5"
                elif (not ex) or m == "Overwrite":
                    ok = (first is None and p.terminal[0] == "raise" and False) or \
                         (kind == "create" and flags is not None and flags.endswith("ACC_TRUNC')") and "fcpl" in first.kw)
                    ok = ok and (bool(hdr) or p.terminal[0] == "raise")
                    msg = "missing file / overwrite must create with ACC_TRUNC, creation-order fcpl and a fresh header"
                else:
                    wantf = want_flag[m]
                    ok = kind == "open" and flags is not None and flags.endswith(wantf + "')") and not hdr
                    msg = "an existing file in mode %s must be opened with %s and its header left alone" % (m, wantf)
                if not rep.check(R4, "%s as %s" % (key, m), ok, msg + " (got %s flags=%s header_written=%s)" % (kind, flags, bool(hdr)),
                                 site=init.file + ":%d" % init.node.lineno, detail=describe_path(p)):
                    break
        rep.stats["init_cells"] = {str(k): sorted(map(str, v)) for k, v in seen.items()}
        # an existing file is not written to before its header was accepted; a refused one is left exactly as it was
        badw = None
        nopen = 0
        for p in paths:
            opens = [e for e in p.events if e.kind == "raw" and e.op == "h5py.h5f.open"]
            if not opens:
                continue
            nopen += 1
            hdr_reads = [e for e in p.events if e.kind in ("raw", "layer") and c4.fx.key(e) in ("format", "version") and not c4.fx.is_write(e)]
            ws = [e for e in p.events if c4.fx.is_observable_write(e) or (e.kind == "raw" and c4.fx.is_write(e)) or (
                e.kind == "layer" and e.op.split(".")[-1] in ("open_group", "__init__") and e.kw.get("create") is not None and
                is_const(e.kw["create"]) and e.kw["create"].t[1])]
            if p.terminal[0] == "raise" and p.terminal[1].cls in ("InvalidFile", "RuntimeError") and p.terminal[1].explicit:
                early = [e for e in ws if e.idx < p.terminal[1].nevents]
                if early:
                    badw = (p, "an existing file that is refused (%s) was already written to (%s)" % (p.terminal[1].cls, early[0].brief()[:80]))
            elif ws and (not hdr_reads or min(e.idx for e in ws) < min(e.idx for e in hdr_reads)):
                badw = (p, "an existing file is written to (%s) before its format tag / version were checked" % ws[0].brief()[:80])
        rep.check(R4, "header check precedes writes", badw is None and nopen > 0, badw[1] if badw else "no opening path",
                  site=init.file + ":%d" % init.node.lineno, detail=describe_path(badw[0]) if badw else None)

    # ---------------- R6: the file whose existence decides between refuse / create / open is the file that is created / opened
    R6 = rep.rule("C11.R6", "the path tested for existence is the path handed to the HDF5 create / open call", floor=2,
                  technique="argument terms of the existence test and of the h5py open/create events on all abstract paths")
    c6 = Ctx(M, coarse=False)
    c6.cfg.compose = False
    init6 = c6.member("File", "__init__")
    if init6 is None:
        rep.bad(R6, "File.__init__", "required mechanism not found")
    else:
        def base(t):
            while t and t[0] == "mcall" and t[1] in ("encode", "decode"):
                t = t[2]
            return t
        tested, opened = set(), {}
        for p in c6.paths(init6, "File", max_paths=20000):
            for e in p.events:
                if e.kind == "ext" and e.op.split(".")[-1] in ("exists", "isfile") and e.args:
                    tested.add(base(e.args[0].t))
                if e.kind == "raw" and e.op in ("h5py.h5f.create", "h5py.h5f.open") and e.args:
                    opened.setdefault(e.op, set()).add(base(e.args[0].t))
        for op in ("h5py.h5f.create", "h5py.h5f.open"):
            got = opened.get(op, set())
            rep.check(R6, op, bool(got) and bool(tested) and got <= tested,
                      "%s is handed %s while existence was tested on %s: an existing file can be taken for missing (and truncated), or "
                      "data be written to another file than the one named" % (
                          op, sorted(show(x) for x in got), sorted(show(x) for x in tested)) if got else "required mechanism not found",
                      site=init6.file + ":%d" % init6.node.lineno)

    # ---------------- R7: a mutating call on a read-only file fails; it is never skipped silently
    R7 = rep.rule("C11.R7", "no mutating member returns quietly because the file is read-only", floor=1,
                  technique="paths of mutating members decided by a comparison with FileMode.ReadOnly: normal return without a write")
    import ast as _ast
    c7 = Ctx(M)
    n7 = 0
    ro_val = mode_values(M).get("ReadOnly")
    from .common import surface, api_key, ENTITY_CLASSES
    for cn, name, tb, f in surface(M, ENTITY_CLASSES, ("methods", "setters", "deleters")):
        if name in ("__init__", "is_open", "close", "flush", "__exit__", "__enter__", "__del__"):
            continue
        if not any(isinstance(n_, _ast.Attribute) and n_.attr == "ReadOnly" for n_ in _ast.walk(f.node)):
            continue
        if not c7.cg.writes(f):
            continue
        n7 += 1
        bad7 = None
        for p in c7.paths(f, cn, max_paths=6000):
            if not p.normal or any(c7.fx.is_write(e) for e in p.events):
                continue
            for a, v in p.decisions:
                if a[0] == "eq" and v is True and (any(x == ("enum", "FileMode", "ReadOnly") for x in subterms(a)) or (
                        any(x == ("const", ro_val) for x in a[1:3]) and
                        any(x and x[0] == "attr" and x[2] in ("mode", "_mode") for s_ in a[1:3] for x in subterms(s_)))):
                    bad7 = p
        rep.check(R7, api_key(cn, name, tb), bad7 is None, "%s returns normally without writing when the file was opened read-only: the "
                  "statement requires the call to fail" % api_key(cn, name, tb), site=f.file + ":%d" % f.node.lineno,
                  detail=describe_path(bad7) if bad7 else None)
    if not n7:
        rep.ok(R7, "mutating members", "no mutating member consults the open mode")

    # ---------------- R8: what makes a mutating call on a read-only file fail is the error h5py raises for the write; the storage
    # layer must let it through (re-raise, translate) -- a handler around a mutation that goes on quietly turns the refusal into
    # a silent no-op
    R8 = rep.rule("C11.R8", "the hdf5 layer never swallows the error of a mutation", floor=1,
                  technique="every handler around a mutating h5py operation in the layer classes ends in a raise (syntax-directed walk)")
    import ast as _ast
    WR = {"create_dataset", "create_group", "require_dataset", "require_group", "resize", "copy", "move", "modify", "create",
          "write_direct", "__delitem__", "__setitem__", "link", "unlink", "pop", "clear", "update", "flush"}
    n8 = 0
    for q, fn in sorted(M.funcs.items()):
        if not fn.module.name.startswith("nixio.hdf5"):
            continue
        for t_ in _ast.walk(fn.node):
            if not isinstance(t_, _ast.Try):
                continue
            mut = None
            for b_ in t_.body:
                for n_ in _ast.walk(b_):
                    if isinstance(n_, _ast.Delete) and any(isinstance(x, _ast.Subscript) for x in n_.targets):
                        mut = n_
                    elif isinstance(n_, (_ast.Assign, _ast.AugAssign)) and any(
                            isinstance(x, _ast.Subscript) for x in (n_.targets if isinstance(n_, _ast.Assign) else [n_.target])):
                        mut = n_
                    elif isinstance(n_, _ast.Call) and isinstance(n_.func, _ast.Attribute) and n_.func.attr in WR:
                        mut = n_
            if mut is None:
                continue
            n8 += 1
            quiet = [h for h in t_.handlers if not any(isinstance(x, _ast.Raise) for s_ in h.body for x in _ast.walk(s_))]
            rep.check(R8, "%s:try@%d" % (q.split(":")[-1], n8), not quiet,
                      "%s catches %s around a mutation (line %d) and goes on: on a file opened read-only the refused write becomes a "
                      "silent no-op instead of an error" % (q.split(":")[-1], _ast.unparse(quiet[0].type) if quiet and quiet[0].type else "everything",
                                                           mut.lineno), site="%s:%d" % (fn.file, t_.lineno))
    if not n8:
        rep.ok(R8, "hdf5 layer", "no handler around a mutation")

    # ---------------- R9 (shared with C02.R6): reads return the same results as in a writable session -- no lookup answers from a
    # table kept for the session (whatever the mode that switches it on)
    from .common import run_shared
    from . import c02
    run_shared(c02, M, rep, tier, {"C02.R6": "C11.R9"})

    # ---------------- R5
    ctx = Ctx(M)
    cg = ctx.cg
    gate = lambda q: q.startswith("nixio.file:File.__init__") or q.startswith("nixio.cmd.")
    for q, ops in sorted(cg.ops.items()):
        hits = sorted(o[1] for o in ops if o[0] == "raw" and o[1] in ("h5py.h5f.create", "h5py.h5f.open", "h5py.File"))
        if not hits:
            continue
        allowed = gate(q) or only_called_from_gate(cg, q, gate)
        rep.check(R5, q, allowed, "%s opens/creates an HDF5 file outside File.__init__ (%s)" % (q, ", ".join(hits)),
                  what=", ".join(hits))


def only_called_from_gate(cg, q, gate):
    """a private helper (leading underscore, not a dunder) is part of the gate when every resolved caller is the gate or such
    a helper of it -- File.__init__ may be split into private pieces; a public or uncalled function that opens files is not"""
    callers = {}
    for a, cs in cg.edges.items():
        for c in cs:
            callers.setdefault(c, set()).add(a)
    seen = set()
    todo = [q]
    while todo:
        x = todo.pop()
        if x in seen:
            continue
        seen.add(x)
        if gate(x):
            continue
        name = x.split(":")[-1].split(".")[-1]
        if not name.startswith("_") or (name.startswith("__") and name.endswith("__")):
            return False
        cs = callers.get(x)
        if not cs:
            return False
        todo.extend(cs)
    return True


def mode_values(M):
    c = M.classes.get("FileMode")
    if c is None:
        raise AnalysisError("FileMode not found")
    import ast
    out = {}
    for k, v in c.attrs.items():
        if isinstance(v, ast.Constant):
            out[k] = v.value
    for need in ("ReadOnly", "ReadWrite", "Overwrite"):
        if need not in out:
            raise AnalysisError("FileMode.%s not found" % need)
    return out
