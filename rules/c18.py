# -*- coding: utf-8 -*-
"""
C18 -- format upgrade: content preserved, idempotent, resumable. Decided statically on nixio/cmd/upgrade.py:
 R1  task list: for an old file the version bump is scheduled on every path and is the LAST task; for an up-to-date
     file (version >= library) the list is empty; each conversion step is scheduled iff its OWN inspection of the file
     found work (never depending on what another step found -- after an interruption the other step may be done)
 R2  process_tasks runs the tasks in list order, each exactly once
 R3  the format version is written only by the version task (and by file creation)
 R4  every conversion closure re-inspects the object before touching it: no write without a passed re-check, and the
     failed re-check skips without writing
 R5  idempotence of the alias-dimension conversion: after the conversion the collector's predicate is false (the link
     exists, the alias link is gone), and the new link gets id, type, index and the hard link to the parent array before
     the alias link is deleted
 R8  resumability per object: what a conversion writes in one file session (between two opens of the file) was read from
     the file in that same session -- data of an old record carried in memory past the session that removed the record is
     lost by an interruption between the two sessions, and the re-check then skips the record for good
 R6  field preservation of the property conversion: every field read from the old record flows into what is written;
     the choice between keeping all per-value extras and keeping a single one is made by exact comparison (no
     tolerance-based test); the replaced dataset is re-created under the same name
"""
import ast
from .common import Ctx, describe_path
from nixsa.px import explore, Config
from nixsa.px_core import Budget
from nixsa.callgraph import _OpaqueEnv
from nixsa.model import AnalysisError
from nixsa.values import show, is_const, subterms, params_of
from nixsa.px_attr import PRESENT

UP = "nixio.cmd.upgrade:"
STEPS = {"add_id": ("add_file_id", "add_file_id.<locals>.add_id"),
         "props": ("update_property_values", "update_property_values.<locals>.update_props"),
         "alias": ("update_alias_range_dimension", "update_alias_range_dimension.<locals>.update_alias_dims")}
BUMP = "update_format_version.<locals>.update_ver"
APPROX = ("isclose", "allclose", "round", "around", "approx", "isclose_")


def is_write(e):
    if e.kind != "raw":
        return False
    eff = e.kw.get("__effect__")
    return eff is not None and eff.t[1] in ("Wlink", "Wattr", "Wdata", "Wresize", "Wcreate_ds", "Wcopy", "Wgroup", "U", "Uattr", "W?")


def run(M, rep, tier, only=None):
    cfg = Config(M, mode="raw")
    cfg.compose = False
    um = M.modules.get("nixio.cmd.upgrade")
    R1 = rep.rule("C18.R1", "task list: version bump last and always for old files; each step scheduled by its own inspection", floor=4,
                  technique="returned task list and scheduling decisions on all abstract paths of collect_tasks")
    R2 = rep.rule("C18.R2", "tasks run in list order, once each", floor=1, technique="loop structure of process_tasks")
    R3 = rep.rule("C18.R3", "the format version is written only by the version task", floor=1, technique="who-may-write over raw events")
    R4 = rep.rule("C18.R4", "every conversion re-checks its object before writing and skips otherwise", floor=3,
                  technique="must-precede / event absence on all abstract paths of each task closure")
    R5 = rep.rule("C18.R5", "alias-dimension conversion is idempotent and complete before the alias link is removed", floor=1,
                  technique="abstract storage state at exit vs the collector's predicate; event order")
    R6 = rep.rule("C18.R6", "property conversion carries every old field over; exact comparison decides what is kept", floor=2,
                  technique="read-to-write data flow on all abstract paths; callee classification of guard terms")
    R8 = rep.rule("C18.R8", "no old-record data is carried in memory across file sessions after the record was replaced", floor=3,
                  technique="read-to-write data flow per file session (events between two opens) on all abstract paths of each task closure")
    if um is None:
        rep.bad(R1, "nixio.cmd.upgrade", "required mechanism not found")
        return

    # ---------------------------------------------------------------- R1
    ct = um.funcs.get("collect_tasks")
    if ct is None:
        rep.bad(R1, "collect_tasks", "required mechanism not found")
    else:
        try:
            paths = explore(cfg, ct, None, None, 40000)
        except Budget:
            raise AnalysisError("C18: too many abstract paths in collect_tasks")
        bad = None
        nold = nnew = 0
        rows = {k: {} for k in STEPS}
        for p in paths:
            if not p.normal:
                continue
            rt = p.terminal[1].t
            tasks = rt[1][0] if rt[0] == "tuple" and rt[1] else rt
            if tasks[0] != "list":
                bad = (p, "collect_tasks does not return a task list")
                break
            quals = [x[1].split(":")[-1] if x[0] == "closure" else show(x) for x in tasks[1]]
            vdec = [v for a, v in p.decisions if a[0] == "ord" and ("version" in show(a))]
            old = bool(vdec) and vdec[0] == "<"
            if not old:
                nnew += 1
                if quals:
                    bad = (p, "an up-to-date file gets tasks: %s" % quals)
                    break
                continue
            nold += 1
            if not quals or quals[-1] != BUMP:
                bad = (p, "for an old file the last task is %s, not the version bump: a run interrupted before the end leaves a file "
                       "that claims to be current" % (quals[-1] if quals else "missing"))
                break
            if quals.count(BUMP) != 1:
                bad = (p, "the version bump is scheduled %d times" % quals.count(BUMP))
                break
            # own inspection of each step
            need = {}
            idv = [v for a, v in p.decisions if a[0] == "truthy" and a[1][0] == "rd" and a[1][3] == ("const", "id")]
            xr = [v for a, v in p.decisions if a[0] == "xraise"]
            need["add_id"] = not (idv and idv[0] is True and (not xr or xr[0] is False))
            need["props"] = any(e.kind == "local" and e.op == "list.append" and e.func and e.func.endswith("find_props") for e in p.events)
            need["alias"] = any(e.kind == "local" and e.op == "list.append" and e.func and e.func.endswith(":update_alias_range_dimension")
                                for e in p.events)
            for k, (coll, clos) in STEPS.items():
                ran = any(any(q == UP + coll or q.startswith(UP + coll + ".") for q in e.stack) for e in p.events)
                if not ran:
                    bad = (p, "an old file is not inspected by %s on this path: whether that conversion is needed is not found out "
                           "(a run that was interrupted after another step would skip it for good)" % coll)
                    break
                present = clos in quals
                rows[k].setdefault(need[k], set()).add(present)
                if present != need[k]:
                    bad = (p, "the step '%s' is %s although its own inspection of the file %s: what another step found must not "
                           "decide (after an interrupted run the other step may already be done)" % (
                               clos.split(".")[-1], "scheduled" if present else "not scheduled", "found work" if need[k] else "found nothing to do"))
            if bad:
                break
        rep.check(R1, "collect_tasks", bad is None and nold > 0 and nnew > 0, bad[1] if bad else
                  "required mechanism not found: %d old-file path(s), %d up-to-date path(s)" % (nold, nnew),
                  site="%s:%d" % (ct.file, ct.node.lineno), detail=describe_path(bad[0], 30) if bad else None,
                  what="%d old-file paths, bump last on all" % nold)
        for k in STEPS:
            r = rows[k]
            rep.check(R1, "schedule/" + k, r.get(True) == {True} and r.get(False) == {False} or bad is not None,
                      "the step %s is not scheduled exactly when its own inspection finds work (%s)" % (k, r), site=ct.file)

    # ---------------------------------------------------------------- R2
    pt = um.funcs.get("process_tasks")
    if pt is None:
        rep.bad(R2, "process_tasks", "required mechanism not found")
    else:
        loops = [n for n in ast.walk(pt.node) if isinstance(n, ast.For)]
        ok = False
        why = "no loop over the task list"
        for n in loops:
            it = n.iter
            if isinstance(it, ast.Name) and it.id in pt.params and isinstance(n.target, ast.Name):
                calls = [c for c in ast.walk(n) if isinstance(c, ast.Call) and isinstance(c.func, ast.Name) and c.func.id == n.target.id]
                ok = len(calls) == 1
                why = "each task must be called exactly once per iteration"
            elif isinstance(it, ast.Call):
                why = "the task list is iterated as %s, not in the order given" % ast.unparse(it)
        for n in loops:
            for t_ in ast.walk(n):
                if isinstance(t_, ast.Try) and any(isinstance(c, ast.Call) and isinstance(c.func, ast.Name) and isinstance(n.target, ast.Name)
                                                   and c.func.id == n.target.id for b in t_.body for c in ast.walk(b)):
                    for h in t_.handlers:
                        reraises = bool(h.body) and isinstance(h.body[-1], ast.Raise)
                        if not reraises:
                            ok = False
                            why = ("a failing task is caught and the loop goes on: the version bump still runs after a conversion step "
                                   "failed, so the half-converted file claims to be current")
        rep.check(R2, "process_tasks", ok, why, site="%s:%d" % (pt.file, pt.node.lineno))
        # the driver itself touches no file: everything written is written by a task (an up-to-date file has no tasks and
        # must stay byte for byte what it was)
        wr = None
        for p in explore(cfg, pt, None, None, 2000):
            for e in p.events:
                if (e.kind == "raw" and (e.op in ("h5py.File", "h5py.h5f.open", "h5py.h5f.create") or
                                         (e.kw.get("__effect__") is not None and str(e.kw["__effect__"].t[1]).startswith("W")))) or \
                        (e.kind == "ext" and e.op.split(".")[-1] in ("open",) and e.op.startswith("builtins")):
                    wr = (p, e)
                if e.op.split(".")[-1] in ("setitem", "__setitem__") and e.key is not None and is_const(e.key) and \
                        e.key.t[1] in ("updated_at", "created_at", "version", "format"):
                    wr = (p, e)
        rep.check(R2, "process_tasks/driver writes nothing", wr is None, "process_tasks itself opens / writes the file (%s): a file that "
                  "needs no conversion is changed by 'upgrading' it" % (wr[1].op if wr else ""), site=wr[1].site if wr else None,
                  detail=describe_path(wr[0]) if wr else None)

    # ---------------------------------------------------------------- R3 / R4 / R5 / R6 on the closures
    vwriters = []
    cg = Ctx(M).cg
    for q, ops in sorted(cg.ops.items()):
        if not q.startswith(UP):
            continue
        for o in ops:
            if o[0] == "raw" and o[1].split(".")[-1] in ("__setitem__", "modify", "create") and o[2] == "version":
                vwriters.append(q.split(":")[-1])
    vwriters = sorted(set(vwriters))
    rep.check(R3, "version writers", vwriters == [BUMP], "the format version is written by %s; only the version task may" % vwriters,
              what=str(vwriters))

    for k, (coll, clos) in STEPS.items():
        f = M.funcs.get(UP + clos)
        key = clos.split(".")[-1]
        if f is None:
            rep.bad(R4, key, "required mechanism not found: %s" % clos)
            continue
        ps = explore(cfg, f, None, None, 40000, closure_env=_OpaqueEnv())
        bad = None
        nskip = nconv = 0
        for p in ps:
            ws = [e for e in p.events if is_write(e)]
            rechecks = [(a, v) for a, v in p.decisions if a[0] in ("truthy", "isinst", "xraise", "eq") and a[0] != "iter"]
            if ws:
                nconv += 1
                first = ws[0]
                reads_before = [e for e in p.events if e.idx < first.idx and e.kind == "raw" and not is_write(e) and
                                e.op.split(".")[-1] in ("__contains__", "get", "__getitem__", "dtype")]
                if not rechecks or not reads_before:
                    bad = (p, "the conversion writes without re-inspecting the object first")
            elif p.normal and any(a[0] == "iter" and v is True for a, v in p.decisions) or (p.normal and k == "add_id"):
                if rechecks:
                    nskip += 1
        rep.check(R4, key, bad is None and nconv > 0 and nskip > 0, bad[1] if bad else
                  "required mechanism not found: %d converting path(s), %d skipping path(s) -- a repeated run must be able to skip what is done" % (nconv, nskip),
                  site="%s:%d" % (f.file, f.node.lineno), detail=describe_path(bad[0], 40) if bad else None)
        bad8 = None
        n8 = 0
        for p in ps:
            opens = [e.idx for e in p.events if e.kind == "raw" and e.op in ("h5py.File", "h5py.h5f.open")]
            ws = [e for e in p.events if is_write(e)]
            if not ws:
                continue
            n8 += 1
            removed = [e.idx for e in ws if e.op.endswith("__delitem__")]
            for e in ws:
                start = max([i for i in opens if i < e.idx] or [-1])
                if not removed or min(removed) >= start:
                    continue        # nothing was replaced before this session began
                terms = [a.t for a in e.args] + [v.t for k2, v in e.kw.items() if k2 != "__effect__"]
                for t in terms:
                    for x in subterms(t):
                        if not (x and x[0] in ("rd", "sub") and isinstance(x[-1], tuple) and x[-1][:1] == ("const",) and
                                isinstance(x[-1][1], str)):
                            continue
                        fld = x[-1]
                        here = [r for r in p.events if start < r.idx < e.idx and r.kind == "raw" and not is_write(r) and
                                r.key is not None and r.key.t == fld]
                        if not here and bad8 is None:
                            bad8 = (p, e, "%s writes the old field %r in a later file session than the one that read it and replaced the "
                                    "record: an interruption between the two sessions loses the field, and the repeated run skips the "
                                    "record because it looks converted" % (e.op, fld[1]))
        rep.check(R8, key, bad8 is None and n8 > 0, bad8[2] if bad8 else "no converting path",
                  site=(bad8[1].site if bad8 else "%s:%d" % (f.file, f.node.lineno)), detail=describe_path(bad8[0], 40) if bad8 else None,
                  what="%d converting paths" % n8)
        if k == "alias":
            bad5 = None
            n5 = 0
            for p in ps:
                ws = [e for e in p.events if is_write(e)]
                if not ws or not p.normal:
                    continue
                n5 += 1
                dels = [e for e in ws if e.op.endswith("__delitem__")]
                creates = [e for e in ws if e.op == "h5py.h5g.create"]
                link_attrs = {e.key.t[1] for e in ws if e.op.startswith("attrs.") and e.key is not None and is_const(e.key)}
                hard = [e for e in ws if e.op.endswith("grp.__setitem__") or e.op.endswith("obj.__setitem__")]
                if not creates or not any("link" in show(x.t) for e in creates for x in e.args):
                    bad5 = (p, "no `link` group is created")
                elif not {"entity_id", "data_object_type", "index"} <= link_attrs:
                    bad5 = (p, "the new link lacks %s" % sorted({"entity_id", "data_object_type", "index"} - link_attrs))
                elif not hard or not any("parent.parent" in show(e.args[1].t) for e in hard if len(e.args) > 1):
                    bad5 = (p, "the new link does not hard-link the parent data array")
                elif not dels or not any("entity_id" in show(e.key.t) for e in dels if e.key is not None):
                    bad5 = (p, "the old alias link (named by the array's id) is not deleted: the dimension is found again on the next run")
                else:
                    last_setup = max(e.idx for e in ws if not e.op.endswith("__delitem__"))
                    if min(e.idx for e in dels) < last_setup:
                        bad5 = (p, "the alias link is deleted before the new link is complete: an interruption in between loses the dimension's ticks")
            rep.check(R5, key, bad5 is None and n5 > 0, bad5[1] if bad5 else "no converting path", site="%s:%d" % (f.file, f.node.lineno),
                      detail=describe_path(bad5[0], 40) if bad5 else None)
        if k == "props":
            bad6 = None
            n6 = 0
            fields = ("uncertainty", "reference", "filename", "encoder", "checksum", "value")
            for p in ps:
                ws = [e for e in p.events if is_write(e)]
                if not ws or not p.normal:
                    continue
                n6 += 1
                written = []
                for e in ws:
                    written += [a.t for a in e.args] + [v.t for k2, v in e.kw.items() if k2 != "__effect__"]
                wtxt = " ".join(show(t) for t in written)
                for fld in fields:
                    rd = [e for e in p.events if e.kind == "raw" and e.op.endswith("__getitem__") and e.key is not None and e.key.t == ("const", fld)]
                    if not rd:
                        bad6 = (p, "the old field %r is not read" % fld)
                        continue
                    term = None
                    for t in written:
                        for x in subterms(t):
                            if x and x[0] in ("rd", "sub") and x[-1] == ("const", fld):
                                term = x
                    used = [v for a, v in p.decisions if any(x and x[0] in ("rd", "sub") and x[-1] == ("const", fld) for x in subterms(a))]
                    if term is None and not (used and all(v is False or v in ("<", "=") for v in used)):
                        bad6 = (p, "the old field %r is read but reaches nothing that is written although it is not empty" % fld)
                for attr in ("definition", "unit"):
                    if not any(e.kind == "raw" and e.op in ("attrs.get", "attrs.__getitem__") and e.key is not None and e.key.t == ("const", attr)
                               for e in p.events):
                        bad6 = (p, "the attribute %r of the old property is not carried over" % attr)
                dele = [e for e in ws if e.op.endswith("__delitem__")]
                crea = [e for e in ws if e.op.endswith("create_dataset")]
                if not dele or not crea or dele[0].key is None or crea[0].key is None or dele[0].key.t != crea[0].key.t:
                    bad6 = (p, "the old dataset is not replaced by a new one of the same name")
                for a, v in p.decisions:
                    for x in subterms(a):
                        if x and x[0] == "call" and isinstance(x[1], str) and x[1].split(".")[-1] in APPROX:
                            bad6 = (p, "what is kept of the old per-value data is decided by the tolerance-based test %s: values that differ "
                                    "by less than the tolerance are collapsed into one and the others are lost" % x[1])
            rep.check(R6, key, bad6 is None and n6 > 0, bad6[1] if bad6 else "no converting path", site="%s:%d" % (f.file, f.node.lineno),
                      detail=describe_path(bad6[0], 50) if bad6 else None)
            cp = um.funcs.get("create_property")
            if cp is not None:
                # on the abstract paths of the helper: data under the given name; definition and unit stored as given (decoding
                # bytes is fine, any other function applied to them changes what the old file said)
                okc = False
                why = "create_property does not store the given data under the given name"
                for p in explore(cfg, cp, None, None, 400):
                    for e in p.events:
                        if e.op.split(".")[-1] in ("create_dataset", "require_dataset") and e.key is not None and e.key.t == ("param", "name") \
                                and e.kw.get("data") is not None and e.kw["data"].t == ("param", "data"):
                            okc = True
                bad_attr = None
                for p in explore(cfg, cp, None, None, 400):
                    for e in p.events:
                        if e.op.split(".")[-1] in ("setitem", "__setitem__") and e.key is not None and is_const(e.key) and \
                                e.key.t[1] in ("definition", "unit") and e.args:
                            t = e.args[0].t
                            while t and t[0] == "mcall" and t[1] in ("decode", "strip") and not t[3][1:]:
                                t = t[2]
                            if t and t[0] == "call" and str(t[1]).split(".")[-1] in ("ensure_str", "ensure_text", "str") and len(t[2]) == 1:
                                t = t[2][0]
                            if t != ("param", e.key.t[1]):
                                bad_attr = (e.key.t[1], show(e.args[0].t)[:100])
                if bad_attr:
                    okc = False
                    why = "create_property stores %s as %s, not as it was read from the old file" % bad_attr
                rep.check(R6, "create_property", okc, why, site=cp.file)
