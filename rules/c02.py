# -*- coding: utf-8 -*-
"""
C02 -- close/reopen reproduces the state. Decided statically (necessary conditions: nixio keeps no state of its
own outside HDF5 and reads back exactly the keys it writes):
 R1  key agreement: every storage location (receiver, key) a setter/deleter writes is read by the getter
 R2  write-through: every normal path of a setter writes/unlinks storage (or found nothing to delete)
 R3  read-through: every getter of a persistent attribute performs a storage read on every normal path
 R4  attribute contract of the hdf5 layer: None deletes (if present), otherwise store value under the given name
 R5  File.close reaches h5py close on every normal path; __exit__ closes
 R6  containers are stateless: no method other than __init__ stores to self
"""
import ast
from .common import Ctx, surface, api_key, describe_path, ENTITY_CLASSES, CONTAINER_CLASSES
from nixsa.model import AnalysisError
from nixsa.px import explore, Config
from nixsa.values import show, is_const, subterms
from nixsa import tables as T

# setters that are deliberately not persistent (reasons in DESIGN.md C02.R2)
NOT_PERSISTENT = {
    "File.auto_update_timestamps@set": "session switch, not file content",
    "DataView.data_extent@set": "always raises: a view cannot be resized",
}
STAMPS = ("updated_at", "created_at")
READ_OPS = {"get_attr", "get_data", "has_data", "__contains__", "get_dataset", "get_by_name", "get_by_pos", "get_by_id",
            "get_by_id_or_name", "has_by_id", "__len__", "__iter__", "shape", "dtype", "read_data", "find_children",
            "__getitem__", "get", "values", "keys", "items", "len", "group", "dataset"}


def loc_of(ev):
    """(receiver term, key) storage location addressed by an event"""
    k = ev.key.t if ev.key is not None else None
    r = ev.recv.t if ev.recv is not None else None
    return (r, k)


def is_read(ctx, ev):
    if ev.kind not in ("layer", "raw"):
        return False
    if ctx.fx.is_write(ev):
        return False
    m = ev.op.split(".")[-1]
    return m in READ_OPS or m == "open_group"


def covers(read_locs, wl):
    """a write location is covered by a read of the same receiver+key, of the dataset/group obtained under that key,
    or (for whole-object writes, key None) by any read of the same receiver"""
    r, k = wl
    if wl in read_locs:
        return True
    for rr, rk in read_locs:
        if rr == r and (k is None or rk is None):
            return True
        # write through a handle obtained by name: recv = lres(get_dataset|open_group, base, (key,))
        if r is not None and r[0] == "lres" and rr is not None:
            if rr == r:
                return True
            if rr == r[2] and r[3] and rk == r[3][0]:
                return True
        if rr is not None and rr[0] == "lres" and r is not None and rr[2] == r and rr[3] and rr[3][0] == k:
            return True
        # raw access self._h5group.group['data'] vs layer get_dataset('data')
        if rr is not None and rr[0] == "attr" and rr[2] == "group" and rr[1] == r and rk == k:
            return True
    return False


def group_readers_rule(M, rep, R8, rname="_create_h5obj"):
    """the remembered h5py object of the layer's group wrapper is read only by the accessor that refreshes it (shared with C03:
    membership must agree with length / iteration / lookup, which all go through the accessor)"""
    hg = M.classes.get("H5Group")
    # ---- R8b: the remembered h5py object is read only by the accessor that refreshes it: a member that reads `_group`
    # directly answers "absent" for a group that was created through another handle after this handle was made
    if hg is not None:
        readers = []
        for nm_, f_ in sorted(list(hg.methods.items()) + list(hg.getters.items()) + list(hg.setters.items()), key=lambda kv: kv[0]):
            if nm_ in ("group", "delete_all", "__init__") or nm_ == rname:
                continue
            for n_ in ast.walk(f_.node):
                if isinstance(n_, ast.Attribute) and n_.attr == "_group" and isinstance(n_.ctx, ast.Load):
                    readers.append("H5Group.%s (%s:%d)" % (nm_, f_.file, n_.lineno))
                    break
        rep.check(R8, "H5Group/_group readers", not readers, "%s read the remembered h5py object directly instead of through the `group` "
                  "accessor that looks it up again: a handle made before the group existed keeps answering from nothing" % ", ".join(readers),
                  what="only the accessor, the resolver and delete_all read it")



def run(M, rep, tier, only=None):
    ctx = Ctx(M)
    R1 = rep.rule("C02.R1", "getter reads every storage location its setter/deleter writes", floor=45,
                  technique="storage-key extraction on all abstract paths of accessor pairs")
    R2 = rep.rule("C02.R2", "setters are write-through on every normal path", floor=45,
                  technique="must-write on all abstract paths")
    R3 = rep.rule("C02.R3", "getters of persistent attributes read storage on every normal path", floor=45,
                  technique="must-read on all abstract paths")
    R4 = rep.rule("C02.R4", "hdf5 layer attribute contract (None deletes, else store value under name)", floor=4,
                  technique="decision table of set_attr/get_attr in raw h5py mode")
    R5 = rep.rule("C02.R5", "File.close reaches h5py close on all normal paths; __exit__ closes; closing writes nothing", floor=4,
                  technique="must-pass-through on all abstract paths")
    R6 = rep.rule("C02.R6", "containers keep no state: no stores to self outside __init__", floor=20,
                  technique="heap-store events on all abstract paths")

    R7 = rep.rule("C02.R7", "handles are stateless: nothing read from the file, no argument and no followed link is remembered "
                  "on an object or in a module table", floor=25,
                  technique="classification of every instance-attribute / table store on all abstract paths (resolved types, "
                            "storage-read terms); key-determines-value test for module tables")
    from . import stateless
    stateless.run(M, rep, R7)

    classes = ENTITY_CLASSES + ["Dimension", "BaseTag", "Entity", "DataSet", "DataView"]
    seen = set()
    for cn, name, tb, f in surface(M, ENTITY_CLASSES + ["DataView"], ("setters",)):
        key = api_key(cn, name, "setters")
        if key in NOT_PERSISTENT:
            continue
        g = ctx.member(cn, name, "getters")
        d = ctx.member(cn, name, "deleters")
        spaths = ctx.paths(f, cn)
        wlocs = {}
        nowrite = []
        for p in spaths:
            ws = [e for e in p.events if ctx.fx.is_observable_write(e) and ctx.fx.key(e) not in STAMPS]
            if p.normal and not ws:
                nowrite.append(p)
            for e in ws:
                wlocs.setdefault(loc_of(e), e)
        if d is not None:
            for p in ctx.paths(d, cn):
                for e in p.events:
                    if ctx.fx.is_observable_write(e) and ctx.fx.key(e) not in STAMPS:
                        wlocs.setdefault(loc_of(e), e)
        # ---- R2
        bad2 = None
        for p in nowrite:
            tested = [e for e in p.events if is_read(ctx, e) and e.op.split(".")[-1] in ("__contains__", "has_data")
                      and any(covers({loc_of(e)}, wl) for wl in wlocs)]
            if not tested:
                bad2 = p
                break
        if not wlocs:
            rep.bad(R2, key, "the setter never writes storage: the value lives only in the Python object",
                    site=f.file + ":%d" % f.node.lineno, detail=describe_path(spaths[0]) if spaths else None)
        elif bad2 is not None:
            rep.bad(R2, key, "a normal path of the setter returns without writing storage (and without having found "
                    "nothing to delete)", site=f.file + ":%d" % f.node.lineno, detail=describe_path(bad2))
        else:
            rep.ok(R2, key, "%d write location(s)" % len(wlocs))
        # ---- R1 / R3
        if g is None:
            rep.bad(R1, key, "setter without getter")
            continue
        gpaths = ctx.paths(g, cn)
        rlocs = set()
        for p in gpaths:
            for e in p.events:
                if is_read(ctx, e):
                    rlocs.add(loc_of(e))
        missing = [wl for wl in wlocs if not covers(rlocs, wl)]
        if missing:
            wl = missing[0]
            rep.bad(R1, key, "the setter writes %s[%s] but the getter never reads that location (reads: %s)" % (
                show(wl[0]) if wl[0] else None, show(wl[1]) if wl[1] else None,
                sorted({show(k) for _, k in rlocs if k})[:6]), site=wlocs[wl].site)
        else:
            rep.ok(R1, key, "%d location(s)" % len(wlocs))
        bad3 = None
        for p in gpaths:
            if p.normal and not any(is_read(ctx, e) for e in p.events):
                bad3 = p
                break
        if bad3 is not None:
            rep.bad(R3, key.replace("@set", ""), "a path of the getter returns %s without reading storage (cached value?)" % (
                show(bad3.terminal[1].t)[:80]), site=g.file + ":%d" % g.node.lineno, detail=describe_path(bad3))
        else:
            rep.ok(R3, key.replace("@set", ""))
    for cn, name in (("Block", "id"), ("Block", "name"), ("Block", "created_at"), ("Block", "updated_at"),
                     ("Property", "name"), ("Feature", "id"), ("File", "id"), ("File", "version"), ("File", "format"),
                     ("File", "created_at"), ("File", "updated_at"), ("DataArray", "data_extent"), ("DataArray", "dtype")):
        g = ctx.member(cn, name, "getters")
        key = "%s.%s" % (cn, name)
        if g is None:
            rep.bad(R3, key, "required mechanism not found: getter")
            continue
        bad3 = None
        for p in ctx.paths(g, cn):
            if p.normal and not any(is_read(ctx, e) for e in p.events):
                bad3 = p
        rep.check(R3, key, bad3 is None, "a path of the getter returns without reading storage",
                  site=g.file + ":%d" % g.node.lineno, detail=describe_path(bad3) if bad3 else None)

    # ---- R4 (raw mode)
    rcfg = Config(M, mode="raw")
    rcfg.compose = False
    for cn in T.LAYER_CLASSES:
        c = M.classes.get(cn)
        sa = c.methods.get("set_attr") if c else None
        ga = c.methods.get("get_attr") if c else None
        if sa is None or ga is None:
            rep.bad(R4, cn + ".set_attr/get_attr", "required mechanism not found")
            continue
        paths = explore(rcfg, sa, cn, None, 4000)
        badp = None
        why = ""
        nstore = ndel = 0
        for p in paths:
            if not p.normal:
                continue
            isnone = None
            for a, v in p.decisions:
                if a == ("isnone", ("param", "value")):
                    isnone = v
            wa = [e for e in p.events if e.kind == "raw" and e.kw["__effect__"].t[1] == "Wattr"]
            ua = [e for e in p.events if e.kind == "raw" and e.kw["__effect__"].t[1] == "Uattr"]
            if isnone is True:
                if wa:
                    badp, why = p, "None is stored instead of deleting the attribute"
                    break
                if any(e.key is None or e.key.t != ("param", "name") for e in ua):
                    badp, why = p, "a different attribute than `name` is deleted"
                    break
                ndel += len(ua)
            elif isnone is False:
                if len(wa) != 1 or ua:
                    badp, why = p, "a value must be stored exactly once (stores=%d, deletes=%d)" % (len(wa), len(ua))
                    break
                e = wa[0]
                if e.op.split(".")[-1] not in ("__setitem__", "create"):
                    badp, why = p, ("the value is stored with attrs.%s, which keeps the attribute's previous HDF5 type: a later value of "
                                    "another type (int -> float) is silently converted to the old one" % e.op.split(".")[-1])
                    break
                val = e.args[1].t if len(e.args) > 1 else None
                if e.key is None or e.key.t != ("param", "name"):
                    badp, why = p, "the value is stored under %s instead of the parameter `name`" % (show(e.key.t) if e.key else None)
                    break
                if val not in (("param", "value"), ("call", "str", (("param", "value"),))):
                    badp, why = p, "the stored value is %s, not the parameter `value`" % (show(val) if val else None)
                    break
                nstore += 1
            else:
                badp, why = p, "set_attr does not distinguish None (delete) from a value"
                break
        if badp is None and (nstore == 0 or ndel == 0):
            rep.bad(R4, cn + ".set_attr", "set_attr has no %s path" % ("store" if nstore == 0 else "delete"), site=sa.file)
        else:
            rep.check(R4, cn + ".set_attr", badp is None, why, site=sa.file + ":%d" % sa.node.lineno,
                      detail=describe_path(badp) if badp else None)
        gp = explore(rcfg, ga, cn, None, 2000)
        okg = True
        for p in gp:
            if not p.normal:
                continue
            reads = [e for e in p.events if e.kind == "raw" and e.op.startswith("attrs.") and e.key is not None
                     and e.key.t == ("param", "name")]
            if not reads and not (is_const(p.terminal[1]) and p.terminal[1].t[1] is None):
                okg = False
                badp = p
        rep.check(R4, cn + ".get_attr", okg, "get_attr returns a value without reading attribute `name`",
                  site=ga.file + ":%d" % ga.node.lineno, detail=describe_path(badp) if not okg else None)

    # ---- R8: members of H5Group that add content resolve their HDF5 group through the parent in the same call
    R8 = rep.rule("C02.R8", "H5Group members that add content re-resolve the group through its parent (no stale h5py handle)",
                  floor=3, technique="receiver provenance of every raw h5py write on all abstract paths (raw mode)")
    hg = M.classes.get("H5Group")
    if hg is None:
        rep.bad(R8, "H5Group", "required mechanism not found")
    else:
        cached = ("attr", ("self",), "_group")
        from .common import private_helper
        rname = "_create_h5obj"
        if rname not in hg.methods and "create_link" in hg.methods:
            # renamed: the private member in whose frame the group is looked up / created in its parent
            cands = set()
            for p in explore(rcfg, hg.methods["create_link"], "H5Group", None, 4000):
                for e in p.events:
                    if e.kind == "raw" and e.op.split(".")[-1] in ("require_group", "create_group", "__getitem__", "__contains__") and e.stack:
                        nm = e.stack[-1].split(".")[-1]
                        if e.stack[-1].split(":")[-1].startswith("H5Group._") and not nm.startswith("__"):
                            cands.add(nm)
            if len(cands) == 1:
                rname = cands.pop()
        for name, f in sorted(hg.methods.items()):
            if name.startswith("__") or name == rname:
                continue
            try:
                paths = explore(rcfg, f, "H5Group", None, 4000)
            except Exception as e:
                if type(e).__name__ != "Budget":
                    raise
                continue
            resolves = any(any(q.endswith("H5Group." + rname) for q in e.stack) for p in paths for e in p.events)
            if not resolves:
                continue
            bad = None
            for p in paths:
                for e in p.events:
                    if e.kind != "raw" or e.recv is None:
                        continue
                    eff = e.kw.get("__effect__")
                    if eff is None or eff.t[1] not in ("Wlink", "Wattr", "Wcreate_ds", "Wgroup"):
                        continue
                    if any("H5DataSet." in q for q in e.stack):
                        continue        # writing into a dataset object that was looked up: not an addition to the group
                    if any(x == cached for x in subterms(e.recv.t)):
                        bad = (p, e)
            rep.check(R8, "H5Group." + name, bad is None, "H5Group.%s writes through the remembered h5py group object without "
                      "looking it up in its parent again: when the group was unlinked and re-created through another handle, "
                      "the write goes to the orphaned group and is lost on reopening" % name,
                      site=bad[1].site if bad else None, detail=describe_path(bad[0]) if bad else None)

    group_readers_rule(M, rep, R8, rname)

    # ---- R9: a container group is emptied item by item, never unlinked as a whole (other handles hold the group object)
    R9 = rep.rule("C02.R9", "container groups are never unlinked as a whole", floor=1,
                  technique="keys of unlink events on an entity's own group on all abstract paths")
    cnames = ctx.fx.container_names()
    n9 = 0
    for cn, name, tb, f in surface(M, ENTITY_CLASSES, ("methods", "setters", "deleters")):
        if not ctx.cg.writes(f):
            continue
        direct = ctx.cg.ops.get(f.qual, ())
        if not any(o[0] in ("layer", "raw") and o[1].split(".")[-1] in ("__delitem__", "delete", "pop") for o in direct):
            continue
        n9 += 1
        bad = None
        for p in ctx.paths(f, cn):
            for e in p.events:
                if e.kind in ("layer", "raw") and e.op.split(".")[-1] in ("__delitem__", "delete", "pop") and e.func == f.qual and \
                        e.key is not None and is_const(e.key) and e.key.t[1] in cnames and e.key.t[1] not in ("metadata", "data") and \
                        e.recv is not None and e.recv.t in (("attr", ("self",), "_h5group"), ("attr", ("attr", ("self",), "_h5group"), "group")):
                    bad = (p, e)
        rep.check(R9, api_key(cn, name, tb), bad is None, "%s unlinks the whole container group %r: another handle on the same entity "
                  "keeps the orphaned group object and its next change is lost on reopening" % (api_key(cn, name, tb), bad[1].key.t[1] if bad else ""),
                  site=bad[1].site if bad else None, detail=describe_path(bad[0]) if bad else None)
    if not n9:
        rep.bad(R9, "entity unlinks", "required mechanism not found")

    # ---- R5
    for nm, need in (("close", "file.close"), ("__exit__", "file.close")):
        f = ctx.member("File", nm)
        if f is None:
            rep.bad(R5, "File." + nm, "required mechanism not found")
            continue
        badp = None
        for p in ctx.paths(f, "File"):
            if p.normal and not any(e.kind == "raw" and e.op == need and e.recv is not None
                                    and e.recv.t == ("attr", ("self",), "_h5file") for e in p.events):
                badp = p
        rep.check(R5, "File." + nm, badp is None, "a normal path of File.%s does not close the h5py file" % nm,
                  site=f.file + ":%d" % f.node.lineno, detail=describe_path(badp) if badp else None)
        # closing is not a change: nothing is written to the file's content on the way out (what reads back after reopening
        # is what was there before close() was called -- a forced time stamp included)
        wr = None
        for p in ctx.paths(f, "File"):
            for e in p.events:
                if ctx.fx.is_write(e):
                    wr = (p, e)
        rep.check(R5, "File.%s/writes nothing" % nm, wr is None, "File.%s writes to the file (%s): the state read back after reopening is not "
                  "the state the session left" % (nm, wr[1].brief()[:100] if wr else ""), site=wr[1].site if wr else None,
                  detail=describe_path(wr[0]) if wr else None)

    # ---- R6
    for cn, name, tb, f in surface(M, CONTAINER_CLASSES, ("methods",)):
        if name == "__init__":
            continue
        key = api_key(cn, name, tb)
        stores = None
        try:
            paths = ctx.paths(f, cn, max_paths=4000)
        except Exception as e:
            if type(e).__name__ != "Budget":
                raise
            continue
        for p in paths:
            for e in p.events:
                if e.kind == "heap" and e.recv is not None and e.recv.t == ("self",) and len(e.stack) <= 1:
                    stores = e
                # ... or fills a table that hangs off the container / its file (a lookup cache): same thing under another roof
                if e.kind == "local" and e.op in ("setitem", "dict.setdefault", "dict.update") and e.recv is not None and \
                        any(x == ("self",) for x in subterms(e.recv.t)) and e.args and \
                        any(x and x[0] in ("rd", "lres", "inst", "mcall") for a_ in e.args for x in subterms(a_.t)):
                    stores = e
        rep.check(R6, key, stores is None, "%s stores to %s: container state outside HDF5 (a later lookup answers from memory, not from "
                  "the file)" % (key, ("self.%s" % stores.key.t[1]) if stores is not None and stores.kind == "heap" else
                                 (show(stores.recv.t)[:60] if stores is not None else "")), site=stores.site if stores else None)

    # ---- R10 (shared with C04.R3): removing a role link must not take the entity itself out of its parent
    R10 = rep.rule("C02.R10", "removing an optional link (metadata, dimension link, ...) never removes the entity that carried it", floor=9,
                   technique="keyword argument of every unlink on the entity's own group, all paths (shared with C04.R3)")
    from . import c04
    c04.role_link_rule(M, rep, R10, ctx)

    # ---- R11 (shared with C10.R7): what create_property leaves behind is what was asked for, not the creation placeholder
    R11 = rep.rule("C02.R11", "a created property holds the values it was given (none for a bare DataType), on every creating path", floor=1,
                   technique="must-follow on all abstract paths of Section.create_property (shared with C10.R7)")
    from . import c10
    c10.create_property_assigns(M, rep, R11)

    # ---- R12: looking at something never creates it: no accessor opens a storage group with create=True (a read-only file
    # must be readable through every accessor, and reading must not change what a reopen shows)
    R12 = rep.rule("C02.R12", "accessors never create storage groups", floor=100,
                   technique="argument of every group-opening event on all abstract paths of every getter")
    for cn, name, tb, f in surface(M, ENTITY_CLASSES, ("getters",)):
        key = api_key(cn, name, tb)
        bad = None
        try:
            paths = ctx.paths(f, cn, max_paths=4000)
        except Exception as e:
            if type(e).__name__ != "Budget":
                raise
            continue
        for p in paths:
            for e in p.events:
                if e.kind == "layer" and e.op.split(".")[-1] in ("open_group", "__init__"):
                    cr = e.kw.get("create")
                    if cr is not None and not (is_const(cr) and not cr.t[1]):
                        bad = (p, e)
        rep.check(R12, key, bad is None, "%s opens a storage group with create=True (%s): merely looking creates it -- refused on a "
                  "read-only file, and an empty group appears in a writable one" % (key, ctx.fx.key(bad[1]) if bad else ""),
                  site=bad[1].site if bad else None, detail=describe_path(bad[0]) if bad else None)

    # ---- R13 (shared with C04.R4): a deletion removes every link to the deleted ids, so that no stale link survives a reopen
    R13 = rep.rule("C02.R13", "delete_all matches by entity_id below its receiver, every match (shared with C04.R4)", floor=2,
                   technique="guard dependency in raw mode")
    c04.delete_all_rule(M, rep, R13)
    # ---- R14 (shared with C05.R3): assigning a link twice leaves the second target linked
    R14 = rep.rule("C02.R14", "create_link stores the link on every normal path (an existing link of that name is replaced)", floor=1,
                   technique="raw h5py events of H5Group.create_link on all abstract paths (shared with C05.R3)")
    from . import c05
    c05.create_link_rule(M, rep, R14)
