# -*- coding: utf-8 -*-
"""
C09 -- SI units. Decided statically:
 R1  decision table of units.scaling over all 21 x 21 prefix pairs (incl. none) x powers: factor = F[o]/F[d] ** power
 R2  PREFIXES alternation = keys of PREFIX_FACTORS = SI prefix table (10^k)
 R3  no alternative of an un-anchored alternation with nullable tail shadows a longer one (m/mol ...) in patterns
     whose match groups are consumed (split, split_compound)
 R4  is_atomic is anchored at both ends
 R5  scaling refuses iff not scalable; scalable compares unit and power of both operands
 R6  the sanitizer's replace chain is idempotent (exhaustive over the rewrite system's alphabet up to a length bound)
"""
import ast
import itertools
import math
import re
try:
    import re._parser as sre_parse
    import re._constants as sre_c
except ImportError:                         # Python < 3.11
    import sre_parse
    import sre_constants as sre_c
from .common import describe_path
from nixsa.model import AnalysisError
from nixsa.px import explore, Config
from nixsa.dtable import TermEval, NOTHING, select, outcome, Unknown
from nixsa.values import V, show, is_const, subterms
from nixsa import tables as T

UNITS_MOD = "nixio.util.units"


def fold_const(M, mod, name):
    """value of a module-level string/dict constant (constant folding through PX)"""
    m = M.modules.get(mod)
    if m is None or name not in m.assigns:
        return None
    try:
        return ast.literal_eval(m.assigns[name])
    except Exception:
        return None


def alternatives(pattern):
    """literal alternatives of the outermost alternation group of a pattern like '(a|b|cd)'"""
    p = sre_parse.parse(pattern)
    out = []

    def lit(seq):
        s = ""
        for op, av in seq:
            if op == sre_c.LITERAL:
                s += chr(av)
            else:
                return None
        return s
    for op, av in p:
        if op == sre_c.SUBPATTERN:
            for op2, av2 in av[3]:
                if op2 == sre_c.BRANCH:
                    for alt in av2[1]:
                        out.append(lit(alt))
                elif op2 == sre_c.IN:
                    out.extend(chr(x[1]) for x in av2 if x[0] == sre_c.LITERAL)
    return out


# ---- regex structure helpers for R3/R4 ---------------------------------------------------------------
def nullable(seq):
    for op, av in seq:
        if op in (sre_c.MAX_REPEAT, sre_c.MIN_REPEAT):
            if av[0] == 0:
                continue
            if nullable(av[2]):
                continue
            return False
        if op == sre_c.SUBPATTERN:
            if nullable(av[3]):
                continue
            return False
        if op == sre_c.BRANCH:
            if any(nullable(a) for a in av[1]):
                continue
            return False
        if op == sre_c.AT:
            continue
        return False
    return True


def lit_of(seq):
    s = ""
    for op, av in seq:
        if op == sre_c.LITERAL:
            s += chr(av)
        else:
            return None
    return s


def shadowed(seq, tail_nullable_after, anchored_end, found, ctx=""):
    """walk a parsed sequence; report alternations whose tail (rest of the whole pattern) is nullable"""
    items = list(seq)
    for i, (op, av) in enumerate(items):
        rest = items[i + 1:]
        rest_nullable = nullable(rest) and tail_nullable_after
        if op == sre_c.BRANCH:
            if rest_nullable and not anchored_end:
                alts = [lit_of(a) for a in av[1]]
                for x in range(len(alts)):
                    for y in range(x + 1, len(alts)):
                        a, b = alts[x], alts[y]
                        if a is not None and b is not None and b != a and b.startswith(a):
                            found.append((a, b))
            for a in av[1]:
                shadowed(a, rest_nullable, anchored_end, found, ctx)
        elif op == sre_c.SUBPATTERN:
            shadowed(av[3], rest_nullable, anchored_end, found, ctx)
        elif op in (sre_c.MAX_REPEAT, sre_c.MIN_REPEAT):
            shadowed(av[2], rest_nullable, anchored_end, found, ctx)


def ends_anchored(p):
    items = list(p)
    return bool(items) and items[-1][0] == sre_c.AT and items[-1][1] in (sre_c.AT_END, sre_c.AT_END_STRING)


def starts_anchored(p):
    items = list(p)
    return bool(items) and items[0][0] == sre_c.AT and items[0][1] in (sre_c.AT_BEGINNING, sre_c.AT_BEGINNING_STRING)


def compiled_patterns(M, cfg, f):
    """(variable name, pattern string) for every re.compile(<foldable>) in f, via PX constant folding"""
    out = []
    paths = explore(cfg, f, None, None, 4000)
    seen = set()
    for p in paths:
        for e in p.events:
            if e.kind == "ext" and e.op == "re.compile" and e.args and is_const(e.args[0]):
                k = (e.site, e.args[0].t[1])
                if k not in seen:
                    seen.add(k)
                    out.append((e.site, e.args[0].t[1]))
    return out


def pattern_uses(cfg, f):
    """{(pattern string, 'match'|'search'|'fullmatch'): are parts of the match object consumed} for every use of a compiled
    constant pattern on the abstract paths of f -- wherever the pattern is compiled (in the function, at module level)"""
    uses = {}
    for p in explore(cfg, f, None, None, 4000):
        terms = [a for a, v in p.decisions]
        if p.terminal[0] == "return":
            terms.append(p.terminal[1].t)
        for e in p.events:
            terms += [a.t for a in e.args]
            if e.recv is not None:
                terms.append(e.recv.t)
        for t in terms:
            for x in subterms(t):
                if not x or x[0] != "mcall":
                    continue
                if x[1] in ("match", "search", "fullmatch") and x[2] and x[2][0] == "call" and str(x[2][1]).endswith("re.compile") \
                        and x[2][2] and x[2][2][0][0] == "const" and isinstance(x[2][2][0][1], str):
                    uses.setdefault((x[2][2][0][1], x[1]), False)
                if x[1] in ("group", "groups", "end", "span", "start", "groupdict") and x[2] and x[2][0] == "mcall" and \
                        x[2][1] in ("match", "search", "fullmatch"):
                    m = x[2]
                    if m[2] and m[2][0] == "call" and str(m[2][1]).endswith("re.compile") and m[2][2] and m[2][2][0][0] == "const":
                        uses[(m[2][2][0][1], m[1])] = True
    return uses


def consumed_compile_sites(f):
    """line numbers of re.compile(...) assignments whose match objects have .group/.end/.string consumed"""
    pat_vars = {}
    for n in ast.walk(f.node):
        if isinstance(n, ast.Assign) and isinstance(n.value, ast.Call) and isinstance(n.value.func, ast.Attribute) \
                and n.value.func.attr == "compile" and len(n.targets) == 1 and isinstance(n.targets[0], ast.Name):
            pat_vars[n.targets[0].id] = n.value.lineno
    match_vars = {}
    for n in ast.walk(f.node):
        if isinstance(n, ast.Assign) and isinstance(n.value, ast.Call) and isinstance(n.value.func, ast.Attribute) \
                and n.value.func.attr in ("match", "search", "fullmatch") and isinstance(n.value.func.value, ast.Name) \
                and n.value.func.value.id in pat_vars:
            for t in n.targets:
                if isinstance(t, ast.Name):
                    match_vars.setdefault(t.id, set()).add((pat_vars[n.value.func.value.id], n.value.func.attr))
    used = set()
    for n in ast.walk(f.node):
        if isinstance(n, ast.Attribute) and n.attr in ("group", "groups", "end", "span", "start", "groupdict") \
                and isinstance(n.value, ast.Name) and n.value.id in match_vars:
            used |= match_vars[n.value.id]
    return used


def run(M, rep, tier, only=None):
    um = M.modules.get(UNITS_MOD)
    R1 = rep.rule("C09.R1", "scaling factor table over all prefix pairs and powers", floor=441,
                  technique="decision-table extraction + exhaustive comparison with the SI oracle")
    R2 = rep.rule("C09.R2", "PREFIXES alternation = PREFIX_FACTORS keys = SI table", floor=3, technique="table agreement")
    R3 = rep.rule("C09.R3", "no shadowed alternative in consumed, un-anchored patterns with nullable tail", floor=2,
                  technique="regex grammar analysis (re._parser)")
    R4 = rep.rule("C09.R4", "is_atomic anchored at both ends", floor=1, technique="regex grammar analysis")
    R5 = rep.rule("C09.R5", "scaling refuses iff not scalable; scalable compares unit and power", floor=2,
                  technique="decision table / dependency")
    R6 = rep.rule("C09.R6", "sanitizer replace chain is idempotent", floor=1,
                  technique="rewrite system extracted from the AST, exhaustive strings over its alphabet up to length 5")
    R7 = rep.rule("C09.R7", "unit functions are pure: no module-level state is written", floor=5,
                  technique="stores to module-level names in every function of the units module (AST def-use)")
    if um is None:
        rep.bad(R1, "nixio.util.units", "required mechanism not found: module")
        return
    impure_functions(M, um, rep, R7)
    cfg = Config(M)
    cfg.compose = False
    factors = fold_const(M, UNITS_MOD, "PREFIX_FACTORS")
    prefixes = fold_const(M, UNITS_MOD, "PREFIXES")

    # ---------------- R2
    if not isinstance(factors, dict) or not isinstance(prefixes, str):
        rep.bad(R2, "tables", "required mechanism not found: PREFIXES / PREFIX_FACTORS literals")
    else:
        alts = alternatives(prefixes)
        rep.check(R2, "alternation=keys", set(alts) == set(factors),
                  "PREFIXES alternatives and PREFIX_FACTORS keys differ: %s" % sorted(set(alts) ^ set(factors)),
                  site=um.relpath)
        rep.check(R2, "keys=SI", set(factors) == set(T.SI_PREFIX_EXP),
                  "PREFIX_FACTORS keys differ from the SI prefix table: %s" % sorted(set(factors) ^ set(T.SI_PREFIX_EXP)),
                  site=um.relpath)
        wrong = [k for k in factors if k in T.SI_PREFIX_EXP and not math.isclose(factors[k], 10.0 ** T.SI_PREFIX_EXP[k], rel_tol=1e-12)]
        rep.check(R2, "values=10^k", not wrong, "PREFIX_FACTORS values deviate from SI for %s" % wrong, site=um.relpath)
        # within the prefix alternation itself a shorter alternative must not precede a longer one it prefixes
        bad = [(a, b) for i, a in enumerate(alts) for b in alts[i + 1:] if b != a and b.startswith(a)]
        rep.check(R2, "prefix-order", not bad, "in PREFIXES %s shadows a longer prefix" % bad, site=um.relpath)
    units_re = fold_const(M, UNITS_MOD, "UNITS")
    if not isinstance(units_re, str):
        rep.bad(R2, "unit table", "required mechanism not found: UNITS literal")
    else:
        ualts = set(alternatives(units_re))
        rep.check(R2, "unit symbols", ualts == set(T.SI_UNIT_SYMBOLS),
                  "the unit alternation differs from the SI unit symbols: missing %s, unknown %s (a lost '|' joins two symbols into one "
                  "that is no unit and drops both)" % (sorted(set(T.SI_UNIT_SYMBOLS) - ualts), sorted(ualts - set(T.SI_UNIT_SYMBOLS))),
                  site=um.relpath)

    # ---------------- R1
    f = um.funcs.get("scaling")
    sp = um.funcs.get("split")
    sc = um.funcs.get("scalable")
    if not (f and sp and sc):
        rep.bad(R1, "units.scaling", "required mechanism not found")
    else:
        c1 = Config(M)
        c1.compose = False
        c1.opaque.update({sp.qual: ("py", "tuple"), sc.qual: ("py", "bool")})
        paths = explore(c1, f, None, None, 2000)
        rep.stats["scaling_rows"] = len(paths)
        plist = [""] + sorted(T.SI_PREFIX_EXP)
        for o in plist:
            for d in plist:
                for power in ("", "2", "-1", "3"):
                    def leaf(t, o=o, d=d, power=power):
                        if t[0] == "call" and t[1] == sp.qual:
                            which = t[2][0]
                            if which == ("param", "origin"):
                                return (o, "V", power)
                            if which == ("param", "destination"):
                                return (d, "V", power)
                        if t[0] == "call" and t[1] == sc.qual:
                            return True
                        return NOTHING
                    te = TermEval(leaf)
                    key = "%s->%s^%s" % (o or "-", d or "-", power or "1")
                    try:
                        rows = select(paths, te, "units.scaling")
                        outs = set()
                        for p in rows:
                            outs.add(outcome(p, te))
                    except KeyError as e:
                        rep.bad(R1, key, "scaling looks up PREFIX_FACTORS with an absent prefix (%s)" % e, site=f.file)
                        continue
                    if len(outs) != 1:
                        raise AnalysisError("scaling table ambiguous for %s: %s" % (key, outs))
                    got = outs.pop()
                    want = 10.0 ** ((T.SI_PREFIX_EXP.get(o, 0) - T.SI_PREFIX_EXP.get(d, 0)) * (int(power) if power else 1))
                    ok = got[0] == "return" and isinstance(got[1], (int, float)) and math.isclose(got[1], want, rel_tol=1e-9)
                    rep.check(R1, key, ok, "scaling(%sV^%s -> %sV^%s) = %s, SI requires %g" % (o, power or 1, d, power or 1, got, want),
                              site=f.file + ":%d" % f.node.lineno, detail=describe_path(rows[0]) if rows else None)
        # R5a refusal iff not scalable
        def leaf_ns(t):
            if t[0] == "call" and t[1] == sc.qual:
                return False
            if t[0] == "call" and t[1] == sp.qual:
                return ("", "V", "")
            return NOTHING
        rows = select(paths, TermEval(leaf_ns), "units.scaling")
        outs = {outcome(p)[:2] if p.terminal[0] == "raise" else ("return",) for p in rows}
        rep.check(R5, "scaling refuses non-scalable", outs == {("raise", "InvalidUnit")},
                  "scaling of non-scalable units does not raise InvalidUnit: %s" % outs, site=f.file)
        # R5b scalable depends on unit and power of both
        c5 = Config(M)
        c5.compose = False
        c5.opaque.update({sp.qual: ("py", "tuple")})
        for nm in ("is_si",):
            g = um.funcs.get(nm)
            if g:
                c5.opaque[g.qual] = ("py", "bool")
        spaths = explore(c5, sc, None, None, 4000)
        ok_dep = False
        viol = None
        for ua, ub, pa, pb, want in (("V", "V", "2", "2", True), ("V", "A", "", "", False), ("V", "V", "2", "3", False),
                                     ("m", "m", "", "2", False), ("S", "s", "", "", False), ("l", "L", "", "", False),
                                     ("Pa", "pA", "", "", False)):
            def leaf(t, ua=ua, ub=ub, pa=pa, pb=pb):
                if t[0] == "call" and t[1] == sp.qual:
                    return ("k", ua, pa) if t[2][0] == ("param", "units_a") else ("m", ub, pb)
                if t[0] == "call" and t[1].endswith(":is_si"):
                    return True
                if t[0] == "isinst":
                    return NOTHING
                return NOTHING

            def atomfn(a):
                if a[0] == "isinst":
                    return False if "Sequence" in a[2] else (True if "str" in a[2] else NOTHING)
                return NOTHING
            te = TermEval(leaf, atomfn=atomfn)
            rows = select(spaths, te, "units.scalable")
            outs = {outcome(p, te) for p in rows}
            if outs != {("return", want)}:
                viol = "scalable(unit %s^%s, unit %s^%s) = %s, required %s" % (ua, pa or 1, ub, pb or 1, outs, want)
        rep.check(R5, "scalable compares unit and power", viol is None, viol or "", site=sc.file)

    # ---------------- R3 / R4
    for fname in ("split", "split_compound", "is_atomic", "is_compound", "invert_power"):
        g = um.funcs.get(fname)
        if g is None:
            continue
        uses = pattern_uses(cfg, g)
        for (pat, how), consumed_here in sorted(uses.items()):
            site = "%s:%d" % (g.file, g.node.lineno)
            try:
                parsed = sre_parse.parse(pat)
            except re.error as e:
                rep.bad(R3, "%s:%s" % (fname, pat[:30]), "pattern does not compile: %s" % e, site=site)
                continue
            if fname == "is_atomic":
                rep.check(R4, "is_atomic", starts_anchored(parsed) and ends_anchored(parsed),
                          "the atomic-unit pattern is not anchored at both ends", site=site)
            if not consumed_here:
                continue
            anchored = ends_anchored(parsed) or how == "fullmatch"
            found = []
            shadowed(parsed, True, anchored, found)
            found = sorted(set(found))
            key = "%s/%s" % (fname, "anchored" if anchored else "prefix-match@" + pattern_role(pat))
            if found:
                for a, b in found:
                    rep.bad(R3, "%s: %s shadows %s" % (key, a, b),
                            "in %s the alternative %r is tried before %r and the rest of the pattern can match empty: "
                            "%r is never recognised (e.g. unit 'm%s')" % (fname, a, b, b, b), site=site)
            else:
                rep.ok(R3, key)

    # ---------------- R6
    g = um.funcs.get("sanitizer")
    if g is None:
        rep.bad(R6, "units.sanitizer", "required mechanism not found")
    else:
        paths = explore(cfg, g, None, None, 100)
        rules = None
        if len(paths) == 1 and paths[0].terminal[0] == "return":
            rules = []
            t = paths[0].terminal[1].t
            while t[0] == "mcall" and t[1] == "replace" and len(t[3]) == 2 and all(x[0] == "const" for x in t[3]):
                rules.append((t[3][0][1], t[3][1][1]))
                t = t[2]
            if t != ("param", g.params[0]):
                rules = None
            else:
                rules.reverse()
        if rules is None:
            raise AnalysisError("C09.R6: sanitizer is not a chain of str.replace calls on its argument; cannot extract the rewrite system")
        rep.stats["sanitizer_rules"] = rules

        def apply(s):
            for a, b in rules:
                s = s.replace(a, b)
            return s
        alpha = sorted({ch for a, b in rules for ch in a + b} | {"x"})
        witnesses = []
        n = 0
        for L in range(1, 6 if tier == "thorough" else 5):
            for tup in itertools.product(alpha, repeat=L):
                s = "".join(tup)
                n += 1
                once = apply(s)
                if apply(once) != once:
                    # minimal witnesses only: no proper substring is itself a witness
                    dele = [a for a, b in rules if b == ""]
                    core = s
                    for a in dele:
                        core = core.replace(a, "")
                    if core != s and apply(apply(core)) != apply(core):
                        continue        # the same witness with deletable characters sprinkled in
                    if not any(w in s for w, _, _ in witnesses):
                        witnesses.append((s, once, apply(once)))
        rep.stats["sanitizer_strings"] = n
        if witnesses:
            for w in witnesses:
                rep.bad(R6, "sanitizer/witness %r" % w[0], "clean-up is not idempotent: sanitizer(%r) = %r but sanitizer(%r) = %r" % (
                    w[0], w[1], w[1], w[2]), site=g.file + ":%d" % g.node.lineno, detail="rewrite system %s" % rules)
        else:
            rep.ok(R6, "sanitizer", "%d strings over %s" % (n, alpha))


MUTATING_METHODS = {"append", "extend", "insert", "pop", "remove", "clear", "update", "setdefault", "popitem", "add",
                    "discard", "sort", "reverse", "__setitem__", "__delitem__"}


TOKENS = {}


def covered(vd, kd, deps):
    """is every source the value depends on determined by the key"""
    kparams = {k for k in kd if k not in TOKENS}
    for t in vd:
        if t in kd:
            continue
        if t in TOKENS:
            base = set()
            for n in TOKENS[t]:
                base |= deps.get(n, set())
            if base and covered(base, kparams, deps):
                continue
        return False
    return True


def local_deps(fnode):
    """flow-insensitive def-use closure: local name -> set of parameters it may depend on (data and control)"""
    import ast
    params = {a.arg for a in fnode.args.args + fnode.args.kwonlyargs}
    direct = {}

    def visit(stmts, ctrl):
        for st in stmts:
            if isinstance(st, (ast.Assign, ast.AugAssign, ast.AnnAssign)):
                val = st.value
                tg = st.targets if isinstance(st, ast.Assign) else [st.target]
                names = {x.id for x in ast.walk(val) if isinstance(x, ast.Name)} if val is not None else set()
                if isinstance(st, ast.AugAssign):
                    names |= {x.id for x in ast.walk(st.target) if isinstance(x, ast.Name)}
                for t in tg:
                    if isinstance(t, (ast.Tuple, ast.List)) and isinstance(st, ast.Assign):
                        # components of an unpacked result are distinct sources (each determined by `names`)
                        for i, x in enumerate(t.elts):
                            if isinstance(x, ast.Name):
                                tok = "%s#%d@%d" % (x.id, i, st.lineno)
                                TOKENS[tok] = names | ctrl
                                direct.setdefault(x.id, set()).add(tok)
                        continue
                    for x in ast.walk(t):
                        if isinstance(x, ast.Name) and isinstance(x.ctx, ast.Store):
                            direct.setdefault(x.id, set()).update(names | ctrl)
            elif isinstance(st, (ast.If, ast.While)):
                c = ctrl | {x.id for x in ast.walk(st.test) if isinstance(x, ast.Name)}
                visit(st.body, c)
                visit(st.orelse, c)
            elif isinstance(st, ast.For):
                c = ctrl | {x.id for x in ast.walk(st.iter) if isinstance(x, ast.Name)}
                for x in ast.walk(st.target):
                    if isinstance(x, ast.Name):
                        direct.setdefault(x.id, set()).update(c)
                visit(st.body, c)
                visit(st.orelse, c)
            elif isinstance(st, ast.Try):
                visit(st.body, ctrl)
                for h in st.handlers:
                    visit(h.body, ctrl)
                visit(st.orelse, ctrl)
                visit(st.finalbody, ctrl)
            elif isinstance(st, ast.With):
                visit(st.body, ctrl)
    TOKENS.clear()
    visit(fnode.body, set())
    out = {p: {p} for p in params}
    for tok in TOKENS:
        out[tok] = {tok}
    changed = True
    while changed:
        changed = False
        for v, ns in direct.items():
            cur = out.setdefault(v, set())
            new = set()
            for n in ns:
                new |= out.get(n, set())
            if not new <= cur:
                cur |= new
                changed = True
    return out


def expr_deps(e, deps):
    import ast
    out = set()
    for x in ast.walk(e):
        if isinstance(x, ast.Name):
            out |= deps.get(x.id, set())
    return out


def impure_functions(M, um, rep, R7):
    """a conversion that remembers anything between calls can make the factor depend on the call history (results must
    depend on the arguments only: conversions compose and invert)"""
    import ast
    modnames = set(um.assigns) | set(um.imports)
    for fname, f in sorted(um.funcs.items()):
        local = {a.arg for a in f.node.args.args + f.node.args.kwonlyargs}
        for n in ast.walk(f.node):
            if isinstance(n, ast.Name) and isinstance(n.ctx, ast.Store):
                local.add(n.id)
        glob = set()
        for n in ast.walk(f.node):
            if isinstance(n, (ast.Global, ast.Nonlocal)):
                glob |= set(n.names)
        local -= glob
        bad = None
        deps = local_deps(f.node)
        for n in ast.walk(f.node):
            tgt = None
            if isinstance(n, ast.Assign) and len(n.targets) == 1 and isinstance(n.targets[0], ast.Subscript):
                # an explicit memo table is harmless iff its key determines everything the stored value depends on
                t0 = n.targets[0]
                root = t0.value
                while isinstance(root, (ast.Subscript, ast.Attribute)):
                    root = root.value
                if isinstance(root, ast.Name) and root.id not in local and root.id in modnames:
                    kd = expr_deps(t0.slice, deps)
                    vd = expr_deps(n.value, deps)
                    if not covered(vd, kd, deps):
                        bad = (n, "%s: the stored value depends on %s, the key only on %s" % (
                            root.id, sorted(x.split("@")[0] for x in vd - kd), sorted(x.split("@")[0] for x in kd)))
                    continue
            if isinstance(n, ast.Subscript) and isinstance(n.ctx, ast.Store) and any(
                    isinstance(a, ast.Assign) and len(a.targets) == 1 and a.targets[0] is n for a in ast.walk(f.node)):
                continue
            if isinstance(n, (ast.Subscript, ast.Attribute)) and isinstance(n.ctx, (ast.Store, ast.Del)):
                tgt = n.value
            elif isinstance(n, ast.Call) and isinstance(n.func, ast.Attribute) and n.func.attr in MUTATING_METHODS:
                tgt = n.func.value
            elif isinstance(n, ast.Name) and isinstance(n.ctx, ast.Store) and n.id in glob:
                bad = (n, n.id)
            if tgt is not None:
                while isinstance(tgt, (ast.Subscript, ast.Attribute)):
                    tgt = tgt.value
                if isinstance(tgt, ast.Name) and tgt.id not in local and tgt.id in modnames:
                    bad = (n, tgt.id)
        rep.check(R7, fname, bad is None, "%s writes module-level state (%s): the result of a unit operation can depend on "
                  "earlier calls" % (fname, bad[1] if bad else ""), site="%s:%d" % (um.relpath, bad[0].lineno if bad else 0))


def pattern_role(pat):
    names = re.findall(r"\?P<(\w+)>", pat)
    return "+".join(names) if names else "opt"
