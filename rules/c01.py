# -*- coding: utf-8 -*-
"""
C01 -- array data is stored and returned exactly. The element-wise round trip runs through NumPy/h5py/HDF5 and is NOT
decided. Decided statically are the storage layout and plumbing every write/read path relies on:
 R1  compression resolution, link by link, for every member of Compression: File.__init__ (Auto -> No), File.create_block
     (Auto -> the file's), Block.create_data_array (Auto -> the block's), DataArray.create_new (filter flag iff
     DeflateNormal), H5DataSet.__init__ (gzip iff flag) -- so the effective setting is the first non-Auto of
     (array, block, file) and never anything but the presence of the gzip filter
 R2  creation invariants at the one dataset-creation site: unlimited maxshape on every axis of `shape`, chunked, the
     given shape, the given dtype except String -> variable-length text; datasets are created nowhere else
 R3  append: both shape refusals precede the enlargement, which precedes the write, and no normal path returns without
     both; per-axis table of the hyperslab: appended axis -> offset = old extent, new extent = old + added, region
     [old : old + added]; other axes -> offset 0, extent unchanged, region [0 : extent of the data]
 R4  pass-through: a[index] reads exactly `index`; a[index] = v writes v at `index` (roles not swapped); write_direct
     writes the whole array; create_data_array(data=...) writes the converted data once, with the shape/dtype it created
 R5  text: the writer's String mapping, the dtype reader and the read conversion use the same variable-length type
 R6  array handles keep nothing about the data set (shared stateless-handle rule)
"""
import ast
from .common import Ctx, describe_path, private_part_of
from nixsa.px import explore, Config
from nixsa.px_core import Budget
from nixsa.model import AnalysisError
from nixsa.dtable import TermEval, NOTHING, Unknown
from nixsa.values import show, is_const, subterms, params_of
from . import stateless

NO = ("enum", "Compression", "No")
DEFL = ("enum", "Compression", "DeflateNormal")
AUTO = ("enum", "Compression", "Auto")


def comp_decision(p, param="compression"):
    """which Compression member the path assumes for the parameter (by its equality decisions)"""
    yes = [a[2] for a, v in p.decisions if a[0] == "eq" and a[1] == ("param", param) and v is True and a[2][0] == "enum"]
    no = {a[2] for a, v in p.decisions if a[0] == "eq" and a[1] == ("param", param) and v is False and a[2][0] == "enum"}
    return (yes[0] if yes else None), no


def is_string_type(M, t):
    """is the term one of the values DataType.String may have (the class assigns it under a NumPy-version test)"""
    c = M.classes.get("DataType")
    if c is None or not isinstance(t, tuple):
        return False
    if t[:3] == ("enum", "DataType", "String"):
        return True
    names = set()
    for e in c.attr_alts.get("String", []):
        if isinstance(e, ast.Attribute):
            names.add(e.attr)
        elif isinstance(e, ast.Name):
            names.add(e.id)
    return t[0] == "ext" and t[1].split(".")[-1] in names


def shape_guard_table(M, rep, R4, oc=None):
    """create_data_array(shape=, data=): a shape argument that differs from the data's shape is refused BEFORE the array is
    created (the write that would fail comes after the creation). Shared with C12."""
    if oc is None:
        oc = Ctx(M, coarse=False)
        oc.cfg.compose = False
        oc.cfg.opaque[oc.member("DataArray", "create_new").qual] = ("obj", "DataArray")
    f = oc.member("Block", "create_data_array")
    if f is None:
        rep.bad(R4, "Block.create_data_array", "required mechanism not found")
        return
    # the shape argument must equal the shape of the data exactly (no broadcasting): evaluate the extracted guard
    allp = oc.paths(f, "Block", max_paths=40000)
    for shp, dshp in (((4,), (4,)), ((4, 4), (4, 4)), ((4,), (4, 4)), ((4, 4), (4,)), ((3,), (3, 3, 3)), ((4, 5), (5, 4)), ((1, 1, 1), (10,)), ((2, 3), (2, 3))):
        def leaf(t, shp=shp, dshp=dshp):
            if t == ("param", "shape"):
                return shp
            if t[0] == "attr" and t[2] == "shape" and "data" in params_of(t[1]):
                return dshp
            return NOTHING
        te = TermEval(leaf)
        created = refused = 0
        for p in allp:
            rel = [(a, v) for a, v in p.decisions if "shape" in params_of(a) and any(
                x and x[0] == "attr" and x[2] == "shape" and "data" in params_of(x[1]) for x in subterms(a))]
            if not rel:
                continue
            try:
                if not all(te.atom(a) == v for a, v in rel):
                    continue
            except Unknown as e:
                raise AnalysisError("C01.R4: the shape check of create_data_array depends on an unmodelled condition (%s)" % e)
            except (TypeError, ValueError):
                continue
            if any(e.kind == "ocall" and e.op.endswith("DataArray.create_new") for e in p.events):
                created += 1
            elif p.terminal[0] == "raise" and p.terminal[1].cls == "ValueError":
                refused += 1
        key = "create_data_array(shape=%r, data of shape %r)" % (shp, dshp)
        if shp == dshp:
            rep.check(R4, key, created > 0, "a matching shape argument is refused", site=f.file + ":%d" % f.node.lineno)
        else:
            rep.check(R4, key, created == 0 and refused > 0, "a shape argument %r that differs from the data's shape %r is accepted (%d creating "
                      "path(s)): the array is created with the wrong extent and the following write fails, leaving the half-made array behind" % (
                          shp, dshp, created), site=f.file + ":%d" % f.node.lineno)


def passthrough_rule(M, rep, R4, ctx=None):
    """a[index] reads exactly `index`; a[index] = v writes v at `index`; write_direct writes the whole array -- the index a caller
    gives is what the storage access sees (negative integers, out-of-range values are h5py's to refuse). Shared with C06."""
    if ctx is None:
        ctx = Ctx(M)
    for name, chk in (("__getitem__", "read"), ("__setitem__", "write"), ("write_direct", "whole")):
        f = ctx.member("DataArray", name)
        key = "DataArray." + name
        if f is None:
            rep.bad(R4, key, "required mechanism not found")
            continue
        bad = None
        n = 0
        for p in ctx.paths(f, "DataArray"):
            evs = [e for e in p.events if e.kind == "layer" and e.op in ("H5DataSet.read_data", "H5DataSet.write_data")]
            if chk in ("read", "write"):
                # NumPy indexing never changes an array's shape: neither does a[index] / a[index] = v
                rs = [e for e in p.events if e.kind == "layer" and e.op in ("H5DataSet.shape@set", "H5DataSet.resize")]
                if rs:
                    bad = (p, "a[index]%s changes the array's extent (%s): indexing never resizes, an index beyond the end is refused" % (
                        " = value" if chk == "write" else "", rs[0].brief()[:90]))
                    n += 1
                    break
            if not evs:
                continue
            n += 1
            e = evs[0]
            slc = e.kw.get("slc")
            if chk == "read":
                if e.op != "H5DataSet.read_data" or slc is None or slc.t != ("param", "index"):
                    bad = (p, "a[index] reads %s" % (show(slc.t) if slc is not None else "everything"))
            elif chk == "write":
                d = e.kw.get("data")
                if e.op != "H5DataSet.write_data" or slc is None or slc.t != ("param", "index") or d is None or d.t != ("param", "value"):
                    bad = (p, "a[index] = value writes %s at %s" % (show(d.t) if d is not None else None, show(slc.t) if slc is not None else None))
            else:
                d = e.kw.get("data")
                if e.op != "H5DataSet.write_data" or not (slc is None or (is_const(slc) and slc.t[1] is None)) or d is None or d.t != ("param", "data"):
                    bad = (p, "write_direct does not write the given data over the whole array")
        rep.check(R4, key, bad is None and n > 0, bad[1] if bad else "no storage access", site=f.file + ":%d" % f.node.lineno,
                  detail=describe_path(bad[0]) if bad else None)


def run(M, rep, tier, only=None):
    ctx = Ctx(M, coarse=False)
    ctx.cfg.compose = False
    cctx = Ctx(M)
    R1 = rep.rule("C01.R1", "compression: Auto is inherited file -> block -> array; the filter is on iff the effective setting is DeflateNormal",
                  floor=6, technique="conditional-constant propagation of the Compression enum through the five links on all abstract paths")
    R2 = rep.rule("C01.R2", "datasets are created resizable, chunked, with the given shape and type, at one site only", floor=2,
                  technique="arguments of the raw creation event; who-may-create over the call graph")
    R3 = rep.rule("C01.R3", "append: validate, enlarge, write; per-axis hyperslab table", floor=3,
                  technique="event order on all abstract paths; evaluation of the per-axis element expressions")
    R4 = rep.rule("C01.R4", "index and value are passed through to the storage access unchanged and unswapped", floor=4,
                  technique="argument provenance of the storage event")
    R5 = rep.rule("C01.R5", "text is stored, reported and read back with the same variable-length type", floor=3,
                  technique="constant agreement across writer, dtype reader and read conversion")
    R6 = rep.rule("C01.R6", "array handles keep nothing about the data set", floor=1, technique="stateless-handle classification (see C02.R7)")
    R7 = rep.rule("C01.R7", "the hdf5 layer decides 'no region given' by identity with None (assigning to index 0 is not a whole-array write)",
                  floor=2, technique="decision atoms on the region parameter of H5DataSet.read_data/write_data (shared with C06.R1)")
    R8 = rep.rule("C01.R8", "array classes never transfer element values through the raw h5py object (one conversion funnel)", floor=20,
                  technique="who-may-call over resolved operations (shared with C15.R1)")

    # ---------------------------------------------------------------- R1
    # (a) File.__init__
    f = cctx.member("File", "__init__")
    if f is None:
        rep.bad(R1, "File.__init__", "required mechanism not found")
    else:
        seen = {}
        bad = None
        try:
            # helpers inlined (a resolution helper shared by the three levels hides its comparison in a composed call)
            init_paths = ctx.paths(f, "File", max_paths=20000)
        except Budget:
            init_paths = cctx.paths(f, "File")
        for p in init_paths:
            if not p.normal:
                continue
            v = p.heap.get((("self",), "_compr"))
            yes, no = comp_decision(p)
            if v is None:
                bad = (p, "the file does not remember its compression setting")
                break
            if yes == AUTO:
                if v.t != NO:
                    bad = (p, "a file opened with Auto compression resolves to %s instead of No" % show(v.t))
                seen["auto"] = True
            else:
                if v.t != ("param", "compression"):
                    bad = (p, "a file opened with an explicit compression setting stores %s" % show(v.t))
                seen["given"] = True
        rep.check(R1, "File.__init__", bad is None and len(seen) == 2, bad[1] if bad else "Auto is not distinguished from an explicit setting",
                  site=f.file + ":%d" % f.node.lineno, detail=describe_path(bad[0]) if bad else None)
    # (b) / (c): Auto -> owner's setting, else the argument
    for cn, name, callee, holder in (("File", "create_block", "Block.create_new", "file"), ("Block", "create_data_array", "DataArray.create_new", "block")):
        f = ctx.member(cn, name)
        key = "%s.%s" % (cn, name)
        if f is None:
            rep.bad(R1, key, "required mechanism not found")
            continue
        oc = Ctx(M, coarse=False)
        oc.cfg.compose = False
        cal = oc.member(*callee.split("."))
        oc.cfg.opaque[cal.qual] = None
        seen = {}
        bad = None
        for p in oc.paths(f, cn, max_paths=40000):
            calls = [e for e in p.events if e.kind == "ocall" and e.op == cal.qual]
            if not calls:
                continue
            e = calls[0]
            arg = e.kw.get("compression") or (e.args[-1] if e.args else None)
            yes, no = comp_decision(p)
            if yes == AUTO:
                seen["auto"] = True
                if arg is None or arg.t != ("attr", ("self",), "_compr"):
                    bad = (p, "with Auto the %s's own setting is not what is passed on (%s)" % (holder, show(arg.t) if arg is not None else None))
            else:
                seen["given"] = True
                if arg is None or arg.t != ("param", "compression"):
                    bad = (p, "an explicit compression setting is replaced by %s" % (show(arg.t) if arg is not None else None))
        rep.check(R1, key, bad is None and len(seen) == 2, bad[1] if bad else "Auto is not distinguished from an explicit setting",
                  site=f.file + ":%d" % f.node.lineno, detail=describe_path(bad[0], 20) if bad else None)
    # Block keeps what it was given
    f = ctx.member("Block", "create_new")
    if f is not None:
        ok = False
        for p in ctx.paths(f, "Block"):
            if not p.normal:
                continue
            for (r, a), v in p.heap.items():
                if a == "_compr" and v.t == ("param", "compression"):
                    ok = True
        rep.check(R1, "Block.create_new", ok, "a new block does not keep the compression setting it was created with", site=f.file)
    # (d) DataArray.create_new: filter flag iff DeflateNormal
    f = ctx.member("DataArray", "create_new")
    if f is None:
        rep.bad(R1, "DataArray.create_new", "required mechanism not found")
    else:
        rows = {}
        bad = None
        for p in ctx.paths(f, "DataArray"):
            cr = [e for e in p.events if e.kind == "layer" and e.op == "H5Group.create_dataset"]
            if not cr:
                continue
            e = cr[0]
            flag = e.kw.get("compression")
            yes, no = comp_decision(p)
            isdefl = yes == DEFL
            if flag is None or not is_const(flag):
                bad = (p, "the filter flag %s is not decided by comparing the setting with DeflateNormal" % (show(flag.t) if flag is not None else None))
                continue
            rows[isdefl] = bool(flag.t[1])
            if e.key is None or e.key.t != ("const", "data"):
                bad = (p, "the array's values are not created as dataset 'data'")
            if e.kw.get("shape") is None or e.kw["shape"].t != ("param", "shape") or e.kw.get("dtype") is None or e.kw["dtype"].t != ("param", "data_type"):
                bad = (p, "shape / element type given to create_new do not reach the dataset creation unchanged")
        rep.check(R1, "DataArray.create_new", bad is None and rows == {True: True, False: False}, bad[1] if bad else
                  "the filter is requested for %s" % rows, site=f.file + ":%d" % f.node.lineno, detail=describe_path(bad[0]) if bad else None,
                  what="flag iff DeflateNormal")

    # ---------------------------------------------------------------- R2 (raw)
    rcfg = Config(M, mode="raw")
    rcfg.compose = False
    ds = M.classes.get("H5DataSet")
    init = ds.methods.get("__init__") if ds else None
    if init is None:
        rep.bad(R2, "H5DataSet.__init__", "required mechanism not found")
    else:
        bad = None
        rows = {}
        strmap = {}
        ncreate = 0
        for p in explore(rcfg, init, "H5DataSet", None, 4000):
            cr = [e for e in p.events if e.kind == "raw" and e.op.split(".")[-1] in ("require_dataset", "create_dataset")]
            if not cr:
                continue
            ncreate += 1
            e = cr[0]
            kw = e.kw
            ms = kw.get("maxshape")
            okms = ms is not None and ((ms.t[0] == "bin" and ms.t[1] == "*" and ms.t[2] == ("tuple", (("const", None),)) and
                                        ms.t[3] == ("call", "len", (("param", "shape"),))) or
                                       (ms.t[0] == "comp" and ms.t[2] == ("const", None) and "shape" in params_of(ms.t)) or
                                       (is_const(ms) and ms.t[1] is None and False))
            if not okms:
                bad = (p, "maxshape is %s: every axis of `shape` must be unlimited (None), else the first append/resize fails" % (show(ms.t) if ms is not None else "not given"))
            ch = kw.get("chunks")
            if ch is None or not (is_const(ch) and ch.t[1]):
                bad = (p, "the dataset is not created chunked (resizing needs chunks)")
            sh = kw.get("shape")
            if sh is None or sh.t != ("param", "shape"):
                bad = (p, "the dataset is not created with the given shape")
            if e.key is None or e.key.t != ("param", "name"):
                bad = (p, "the dataset is not created under the given name")
            dt = kw.get("dtype")
            isstr = [v for a, v in p.decisions if a[0] == "eq" and ("param", "dtype") in a[1:3] and
                     any(is_string_type(M, o) for o in a[1:3])]
            if dt is None:
                bad = (p, "no element type is given")
            elif isstr and isstr[0] is True:
                strmap[True] = show(dt.t)
                if dt.t == ("param", "dtype"):
                    bad = (p, "String is not mapped to the variable-length text type")
            else:
                if dt.t != ("param", "dtype"):
                    bad = (p, "the element type is changed to %s" % show(dt.t))
            compr = [v for a, v in p.decisions if a[0] == "truthy" and a[1] == ("param", "compression")]
            gz = kw.get("compression")
            if compr:
                rows[compr[0]] = gz is not None and is_const(gz) and gz.t[1] == "gzip"
                if gz is not None and not (is_const(gz) and gz.t[1] == "gzip"):
                    bad = (p, "a filter other than gzip is requested (%s)" % show(gz.t))
        rep.check(R2, "H5DataSet.__init__", bad is None and ncreate > 0, bad[1] if bad else "no creating path", site=init.file + ":%d" % init.node.lineno,
                  detail=describe_path(bad[0]) if bad else None)
        rep.check(R1, "H5DataSet.__init__/gzip", rows == {True: True, False: False}, "gzip is requested for flag values %s (required: exactly when the flag is set)" % rows,
                  site=init.file + ":%d" % init.node.lineno)
    cg = cctx.cg
    for q, ops in sorted(cg.ops.items()):
        if q.startswith("nixio.cmd."):
            continue
        for o in ops:
            if o[0] == "raw" and o[1].split(".")[-1] in ("require_dataset", "create_dataset"):
                rep.check(R2, "creator " + q.split(":")[-1], q.split(":")[-1] == "H5DataSet.__init__" or
                          private_part_of(M, q, {init.qual} if init is not None else set()),
                          "%s creates a dataset itself (%s): the creation invariants of H5DataSet.__init__ do not hold for it" % (q.split(":")[-1], o[1]))

    # ---------------------------------------------------------------- R3
    f = ctx.member("DataArray", "append")
    if f is None:
        rep.bad(R3, "DataSet.append", "required mechanism not found")
    else:
        paths = ctx.paths(f, "DataArray")
        bad = None
        nref = 0
        rows = {}
        for p in paths:
            rs = [e for e in p.events if e.kind == "layer" and e.op == "H5DataSet.shape@set"]
            ws = [e for e in p.events if e.kind == "layer" and e.op == "H5DataSet.write_data"]
            if p.terminal[0] == "raise":
                if p.terminal[1].cls == "ValueError":
                    nref += 1
                    if rs or ws:
                        bad = (p, "a shape mismatch is refused after the dataset was already enlarged / written")
                continue
            if len(rs) != 1 or len(ws) != 1:
                bad = (p, "a normal path of append does not enlarge and write exactly once (enlargements=%d, writes=%d): appended data of zero "
                       "size must still grow the extent" % (len(rs), len(ws)))
                continue
            if rs[0].idx > ws[0].idx:
                bad = (p, "the data is written before the dataset is enlarged")
                continue
            w = ws[0]
            if w.kw.get("data") is None or "data" not in params_of(w.kw["data"].t):
                bad = (p, "what is written is not the appended data")
            # per-axis element expressions
            newext = rs[0].args[0].t
            slc = w.kw.get("slc").t if w.kw.get("slc") is not None else None
            def per_axis(t):
                # the per-axis element expression: of a comprehension, or of a sequence built in a loop (one unrolled iteration)
                while t and t[0] == "call" and t[1] in ("tuple", "list") and len(t[2]) == 1:
                    t = t[2][0]
                if t and t[0] == "comp":
                    return t[2]
                if t and t[0] in ("tuple", "list") and len(t[1]) == 1:
                    return t[1][0]
                return None
            ne_t, sl_t = per_axis(newext), per_axis(slc) if slc is not None else None
            if ne_t is None or sl_t is None:
                if any(a[0] == "iter" and v is False for a, v in p.decisions) and newext[0] in ("tuple", "list") and not newext[1]:
                    continue        # the loop form with no axis at all (rank 0): nothing to compute per axis
                bad = (p, "cannot see the per-axis computation of the new extent / region")
                continue
            axdec = [(a, v) for a, v in p.decisions if a[0] == "eq" and a[2] == ("param", "axis") and a[1][0] == "idx"]
            isax = {v for a, v in axdec}
            if len(isax) != 1:
                continue            # inconsistent mix of axis classes between the comprehensions
            onaxis = isax.pop()
            S, D = 7, 3

            def leaf(t):
                if t[0] == "elem" and len(t) > 1 and isinstance(t[1], tuple) and t[1] and t[1][0] == "comp":
                    return te.ev(t[1][2])
                if t[0] in ("elem", "sub") and "data" in params_of(t[1]):
                    return D
                if t[0] in ("elem", "sub") and any(x and x[0] == "lres" and x[1] == "shape" for x in subterms(t[1])):
                    return S
                return NOTHING
            te = TermEval(leaf)
            try:
                ne = te.ev(ne_t)
                sl = te.ev(sl_t)
            except (Unknown, TypeError) as e:
                raise AnalysisError("C01.R3: cannot evaluate the per-axis expressions of append (%s)" % e)
            want_ne = S + D if onaxis else S
            want_sl = slice(S, S + D) if onaxis else slice(0, D)
            rows[onaxis] = (ne, sl)
            if ne != want_ne or sl != want_sl:
                bad = (p, "on %s an axis of old extent %d with %d appended gets extent %r and write region %r; required %r and %r" % (
                    "the appended axis" if onaxis else "another axis", S, D, ne, sl, want_ne, want_sl))
        rep.check(R3, "DataSet.append", bad is None and nref >= 2 and len(rows) == 2, bad[1] if bad else
                  "required mechanism not found: %d shape refusal(s), axis classes seen %s" % (nref, sorted(rows)),
                  site=f.file + ":%d" % f.node.lineno, detail=describe_path(bad[0], 30) if bad else None, what=str(rows))
        for k, v in rows.items():
            rep.ok(R3, "append/axis==appended:%s" % k, "extent %r, region %r for old 7 + 3" % v)

    # ---------------------------------------------------------------- R4
    passthrough_rule(M, rep, R4, ctx)
    f = cctx.member("Block", "create_data_array")
    if f is not None:
        bad = None
        n = 0
        oc = Ctx(M, coarse=False)
        oc.cfg.compose = False
        oc.cfg.opaque[oc.member("DataArray", "create_new").qual] = ("obj", "DataArray")
        for p in oc.paths(f, "Block", max_paths=40000):
            if not p.normal:
                continue
            cr = [e for e in p.events if e.kind == "ocall" and e.op.endswith("DataArray.create_new")]
            if not cr:
                continue
            given = [v for a, v in p.decisions if a == ("isnone", ("param", "data"))]
            ws = [e for e in p.events if e.kind == "layer" and e.op == "H5DataSet.write_data"]
            if given and given[0] is False:
                n += 1
                if len(ws) != 1 or ws[0].kw.get("data") is None or "data" not in params_of(ws[0].kw["data"].t) or ws[0].idx < cr[0].idx:
                    bad = (p, "the given data is not written exactly once after the array was created")
                a = cr[0].args
                sh = a[-2] if len(a) >= 2 else None
                if sh is not None and not (params_of(sh.t) & {"shape", "data"}):
                    bad = (p, "the array is created with a shape that derives neither from `shape` nor from the data")
        rep.check(R4, "Block.create_data_array", bad is None and n > 0, bad[1] if bad else "no path writes the given data", site=f.file + ":%d" % f.node.lineno,
                  detail=describe_path(bad[0], 30) if bad else None)
        shape_guard_table(M, rep, R4, oc)
        # element type handed to the creation: the given dtype; without one the data's own dtype; with neither the default
        badt = None
        nt = 0
        for p in oc.paths(f, "Block", max_paths=40000):
            if not p.normal:
                continue
            cr = [e for e in p.events if e.kind == "ocall" and e.op.endswith("DataArray.create_new")]
            if not cr:
                continue
            dts = [a_ for a_ in cr[0].args if a_.t == ("param", "dtype") or (a_.t and a_.t[0] == "attr" and a_.t[2] == "dtype")
                   or (is_const(a_) and isinstance(a_.t[1], str) and a_.t[1] in ("f8", "float64", "d"))] + \
                  [v_ for k_, v_ in cr[0].kw.items() if k_ in ("data_type", "dtype")]
            dgiven = [v for a, v in p.decisions if a == ("isnone", ("param", "dtype"))]
            dat = [v for a, v in p.decisions if a == ("isnone", ("param", "data"))]
            if not dgiven:
                continue
            nt += 1
            cand = [show(a_.t) for a_ in cr[0].args]
            if dgiven[0] is False:
                okt = any(a_.t == ("param", "dtype") for a_ in cr[0].args + tuple(cr[0].kw.values()))
                why = "the given dtype is not what the array is created with"
            elif dat and dat[0] is False:
                okt = any(a_.t and a_.t[0] == "attr" and a_.t[2] == "dtype" and "data" in params_of(a_.t)
                          for a_ in cr[0].args + tuple(cr[0].kw.values()))
                why = "without a dtype the array is not created with the data's own element type (an integer/float width or " \
                      "signedness is replaced): what is read back has another type than what was written"
            else:
                okt = True
            if not okt:
                badt = (p, why + " (creation arguments: %s)" % ", ".join(cand)[:200])
        rep.check(R4, "Block.create_data_array/element type", badt is None and nt > 0, badt[1] if badt else "no creating path",
                  site=f.file + ":%d" % f.node.lineno, detail=describe_path(badt[0], 30) if badt else None)

    # ---------------------------------------------------------------- R5
    if ds is not None:
        consts = {}
        for nm in ("__init__", "read_data"):
            g = ds.methods.get(nm)
            if g is None:
                continue
            for p in explore(rcfg, g, "H5DataSet", None, 4000):
                for a, v in p.decisions:
                    for x in subterms(a):
                        if x and x[0] in ("call", "ext", "attr") and ("vlen" in show(x) or "string_dtype" in show(x)):
                            consts.setdefault(nm, set()).add(show(x))
                for e in p.events:
                    for vv in e.kw.values():
                        if "vlen" in show(vv.t) or "string_dtype" in show(vv.t):
                            consts.setdefault(nm, set()).add(show(vv.t))
        g = ds.getters.get("dtype")
        if g is not None:
            for p in explore(rcfg, g, "H5DataSet", None, 400):
                for a, v in p.decisions:
                    for x in subterms(a):
                        if x and "vlen" in show(x) or (x and "string_dtype" in show(x)):
                            consts.setdefault("dtype", set()).add(show(x) if x[0] != "cmp" else show(x[3]))
        vals = set()
        for k, v in consts.items():
            vals |= {s for s in v if "vlen" in s or "string_dtype" in s}
        canon = {s.split("(")[0] if s.startswith("h5py") else s for s in vals}
        rep.check(R5, "writer", "__init__" in consts, "the writer does not map String to a variable-length text type", what=str(sorted(consts.get("__init__", ()))))
        rep.check(R5, "dtype reader", "dtype" in consts, "the dtype reader does not recognise the variable-length text type", what=str(sorted(consts.get("dtype", ()))))
        rep.check(R5, "read conversion", "read_data" in consts, "reading does not convert variable-length text", what=str(sorted(consts.get("read_data", ()))))

    # ---------------------------------------------------------------- R6
    n = stateless.run(M, rep, R6, only_classes={"H5DataSet", "H5Group", "DataSet", "DataArray"})
    from . import c06, c15
    c06.layer_region_rule(M, rep, R7)
    c15.raw_value_access_rule(Ctx(M).cg, rep, R8)
    R9 = rep.rule("C01.R9", "a read keeps the shape of the region: only a 0-dimensional result is turned into a one-element array", floor=1,
                  technique="guard of the reshaping path (shared with C06.R6)")
    c06.reshape_rule(M, rep, R9)
    if not n:
        rep.bad(R6, "array handles", "required mechanism not found")
