# -*- coding: utf-8 -*-
"""
C06 -- index expressions on arrays and views. Decided statically:
 R1  the read and the write side of a view classify "no index given" identically, by identity with None
 R2  coordinate transformation table: for every representative (window, user index) the extracted decision table of
     _transform_coordinates yields exactly the NumPy selection shifted into the window -- integers (negative ones from
     the window's end) are refused with an out-of-bounds error iff they fall outside the window, slices select
     start + range(*slice.indices(len)), negative steps are refused; the ellipsis / padding expansion equals NumPy's
 R3  window validity table of DataView.__init__: valid iff slices given, all non-empty, rank matches, no stop > extent
 R4  H5DataSet.read_data turns ValueError/TypeError of the HDF5 subscript into IndexError
 R5  an invalid view reads empty and refuses writes before touching storage
 R6  a read result is reshaped to a one-element array only when it is 0-dimensional
 R7  a view keeps nothing it has read (shared stateless-handle rule)
"""
import itertools
from .common import io_names, Ctx, describe_path
from nixsa.px import explore, Config
from nixsa.px_core import Budget
from nixsa.model import AnalysisError
from nixsa.dtable import TermEval, NOTHING, Unknown
from nixsa.values import show, is_const, subterms, params_of
from . import stateless

SLICES = ("attr", ("self",), "_slices")


def elem_terms(p):
    """(user element term, window element term) used by a one-iteration path of _transform_coordinates"""
    u = w = None
    for a, v in p.decisions:
        for x in subterms(a):
            if x and x[0] == "elem" and len(x) > 2:
                if x[1] == SLICES:
                    w = x
                elif u is None or len(repr(x)) < len(repr(u)):
                    if x[1] != SLICES and not (x[1][0] == "call" and x[1][1] == "zip"):
                        u = x
    return u, w


def layer_region_rule(M, rep, R1):
    """the hdf5 layer: "no region given" is decided by identity with None (an index of 0 is a region), and only then is the
    whole data set addressed. Shared with C01 (assignment to an index region) and C16 (row/cell writes)."""
    rcfg0 = Config(M, mode="raw")
    rcfg0.compose = False
    dsc = M.classes.get("H5DataSet")
    for nm in ("read_data", "write_data"):
        f = dsc.methods.get(nm) if dsc else None
        key = "H5DataSet." + nm
        if f is None:
            rep.bad(R1, key, "required mechanism not found")
            continue
        atoms = set()
        whole = False
        altered = None
        for p in explore(rcfg0, f, "H5DataSet", None, 4000):
            for a, v in p.decisions:
                if a[0] in ("isnone", "truthy") and a[1] == ("param", "slc"):
                    atoms.add(a[0])
            for e in p.events:
                if e.kind == "raw" and e.op.split(".")[-1] in ("__getitem__", "__setitem__") and e.key is not None and \
                        e.key.t in (("slice", ("const", None), ("const", None), ("const", None)),
                                    ("call", "slice", (("const", None), ("const", None), ("const", None))), ("builtin", "Ellipsis")):
                    whole = True
                elif e.kind == "raw" and e.op.split(".")[0] == "ds" and e.op.split(".")[-1] in ("__getitem__", "__setitem__") and \
                        e.key is not None and e.key.t != ("param", "slc") and "slc" in params_of(e.key.t):
                    altered = show(e.key.t)[:100]
        if altered:
            rep.bad(R1, key + "/region", "%s hands HDF5 another region (%s) than the one it was given: the elements transferred are not "
                    "the elements addressed unless the rewriting is exact for every index form (ellipsis, integers, steps)" % (key, altered),
                    site=f.file + ":%d" % f.node.lineno)
        rep.check(R1, key, atoms == {"isnone"} and whole, "%s decides whether a region was given by %s: the index 0 addresses the whole "
                  "data set" % (key, "truthiness" if "truthy" in atoms else "something else than `slc is None`"),
                  site=f.file + ":%d" % f.node.lineno, what="tests `slc is None`, else passes the region on")



def view_transform(c):
    """DataView's index transformation: by name, else the private helper both DataView._read_data and _write_data call"""
    from .common import private_helper
    return private_helper(c, "DataView", "_transform_coordinates", [("DataView", io_names(c)[0], "methods"), ("DataView", io_names(c)[1], "methods")],
                          pick=lambda h: h.cls is not None and h.cls.name == "DataView")


def reshape_rule(M, rep, R6, ctx=None):
    """a read result is reshaped to one element only when it was found to be 0-dimensional (shared with C01: shape)"""
    if ctx is None:
        ctx = Ctx(M, coarse=False)
        ctx.cfg.compose = False
    RD, WR = io_names(ctx)
    rdm = ctx.member("DataArray", RD)
    if rdm is None:
        rep.bad(R6, "DataArray._read_data", "required mechanism not found")
    else:
        bad = None
        nres = 0
        for p in ctx.paths(rdm, "DataArray"):
            if not p.normal:
                continue
            reshaped = any(a == "shape" and r[0] != "self" for (r, a), v in p.heap.items() if isinstance(r, tuple)) or \
                any(x and x[0] == "mcall" and x[1] in ("reshape", "flatten", "ravel") for x in subterms(p.terminal[1].t)) or \
                any(x and x[0] == "call" and str(x[1]).split(".")[-1] in ("reshape", "atleast_1d", "ravel") for x in subterms(p.terminal[1].t))
            if not reshaped:
                continue
            nres += 1
            zero_dim = False
            for a, v in p.decisions:
                s = show(a)
                if a[0] == "truthy" and ("shape" in s and "len(" in s or ".ndim" in s) and v is False:
                    zero_dim = True
                if a[0] == "eq" and (".ndim" in s or ("shape" in s and "len(" in s)) and a[2] == ("const", 0) and v is True:
                    zero_dim = True
                if a[0] == "eq" and "shape" in s and a[2] in (("tuple", ()), ("const", ())) and v is True:
                    zero_dim = True
            if not zero_dim:
                bad = (p, "a read result is reshaped although it was not found to be 0-dimensional: results that merely contain one "
                       "element (e.g. a 1x1 region) lose their shape")
        if rdm is not None:
            atl = any(x and x[0] == "call" and str(x[1]).endswith("atleast_1d") for p in ctx.paths(rdm, "DataArray") for x in subterms(p.terminal[1].t))
            if atl:
                bad = None
        rep.check(R6, "DataArray._read_data", bad is None and nres > 0, bad[1] if bad else "single values are not returned as one-element arrays",
                  site=rdm.file + ":%d" % rdm.node.lineno, detail=describe_path(bad[0]) if bad else None)



def run(M, rep, tier, only=None):
    ctx = Ctx(M, coarse=False)
    ctx.cfg.compose = False
    R1 = rep.rule("C06.R1", "read and write side of a view (and of the hdf5 layer) agree on what 'no index' means (identity with None)", floor=4,
                  technique="decision atoms on the index parameter in the two sibling methods")
    R2 = rep.rule("C06.R2", "view index transformation = NumPy selection shifted into the window (ints, slices, ellipsis)", floor=300,
                  technique="decision-table extraction; evaluation of the extracted guards on representatives; comparison with "
                            "Python/NumPy index semantics")
    R3 = rep.rule("C06.R3", "window validity: given, non-empty, rank matches, no stop beyond the extent", floor=10,
                  technique="decision-table extraction + exhaustive comparison on representatives")
    R4 = rep.rule("C06.R4", "HDF5 subscript errors surface as IndexError", floor=1, technique="exception translation on all raw paths")
    R5 = rep.rule("C06.R5", "invalid views read empty / refuse writes before touching storage", floor=2,
                  technique="event absence on the invalid paths")
    R6 = rep.rule("C06.R6", "only 0-dimensional read results are reshaped to one element", floor=1,
                  technique="guard of the reshaping path")
    R7 = rep.rule("C06.R7", "a view keeps nothing it has read", floor=1, technique="stateless-handle classification (see C02.R7)")

    # ---------------------------------------------------------------- R1 / R5
    cctx = Ctx(M)
    ictx = Ctx(M, coarse=False)
    ictx.cfg.compose = False
    tcf = view_transform(ctx)
    if tcf is not None:
        ictx.cfg.opaque[tcf.qual] = ("py", "tuple")
    RD, WR = io_names(ctx)
    # the view's two hooks are analysed up to the call into the underlying array (what the array then does is C01/C15's)
    for nm_ in (RD, WR):
        am = ctx.member("DataArray", nm_) or ctx.member("DataSet", nm_)
        for q_ in {x.qual for x in (ctx.member("DataArray", nm_), ctx.member("DataSet", nm_)) if x is not None}:
            cctx.cfg.opaque[q_] = ("py", "ndarray")
            ictx.cfg.opaque[q_] = ("py", "ndarray")
    for nm in (RD, WR):
        f = ctx.member("DataView", nm)
        key = "DataView." + nm
        if f is None:
            rep.bad(R1, key, "required mechanism not found")
            continue
        paths = cctx.paths(f, "DataView")
        atoms = set()
        # the test may sit in a private helper the index is handed to: helpers are inlined here (the index transformation
        # itself is R2's and stays opaque), so the decision shows up on the parameter whatever function contains it
        for p in ictx.paths(f, "DataView"):
            for a, v in p.decisions:
                if a[0] in ("isnone", "truthy") and a[1] == ("param", "sl"):
                    atoms.add(a[0])
        rep.check(R1, key, atoms == {"isnone"}, "%s decides whether an index was given by %s: an index of 0 (or an empty tuple) "
                  "is taken for 'no index' and the whole view is addressed" % (key, "truthiness" if "truthy" in atoms else "nothing"),
                  site=f.file + ":%d" % f.node.lineno, what="tests `sl is None`")
        bad = None
        ninv = 0
        for p in paths:
            valid = [v for a, v in p.decisions if a[0] == "truthy" and a[1] == ("attr", ("self",), "_valid")]
            if valid and valid[0] is False:
                ninv += 1
                if any(e.kind in ("layer", "raw") or (e.kind == "ocall" and e.op.split(".")[-1] in (RD, WR)) for e in p.events):
                    bad = (p, "an invalid view touches storage")
                if nm == WR and p.normal:
                    bad = (p, "writing through an invalid view is not refused")
                if nm == RD and (not p.normal or "array" not in show(p.terminal[1].t)):
                    bad = (p, "reading an invalid view does not give an empty array")
        rep.check(R5, key, bad is None and ninv > 0, bad[1] if bad else "validity is not consulted", site=f.file + ":%d" % f.node.lineno,
                  detail=describe_path(bad[0]) if bad else None)

    layer_region_rule(M, rep, R1)

    # ---------------------------------------------------------------- R2a element transformation
    f = view_transform(ctx)
    if f is None:
        rep.bad(R2, "DataView._transform_coordinates", "required mechanism not found")
    else:
        try:
            paths = ctx.paths(f, "DataView", max_paths=20000)
        except Budget:
            raise AnalysisError("C06: too many abstract paths in _transform_coordinates")
        groups = {}
        for p in paths:
            it = [v for a, v in p.decisions if a[0] == "iter"]
            if it and it[0] is not True:
                continue        # (no loop decision at all: the per-element code sits in a comprehension, evaluated for element 0)
            u, w = elem_terms(p)
            if u is None or w is None:
                continue
            pre = tuple((a, v) for a, v in p.decisions if not any(x == u or x == w for x in subterms(a)))
            groups.setdefault((pre, u, w), []).append(p)
        if not groups:
            rep.bad(R2, "DataView._transform_coordinates", "required mechanism not found: no per-element transformation path")
        windows = [slice(2, 6, 1), slice(0, 4, 1)]
        ints = list(range(-6, 7))
        bounds = [None, -6, -5, -4, -3, -1, 0, 1, 2, 3, 4, 5, 7]
        slices_full = [slice(a, b, c) for a in bounds for b in bounds for c in (None, 1, 2, 3)] + [slice(None, None, -1), slice(3, 0, -1)]
        slices_small = [slice(a, b, c) for a in (None, -5, -1, 0, 2, 5) for b in (None, -5, -1, 0, 3, 7) for c in (None, 2)]
        first = True
        nbad = 0
        for (pre, u, w), ps in sorted(groups.items(), key=lambda kv: -len(kv[1])):
            reps = ints + (slices_full if (first or tier == "thorough") else slices_small)
            first = False
            # decisions about the one index element / window element under study; decisions about the index as a whole (its
            # length against the rank, ...) belong to the expansion table below
            whole = lambda a, u=u: any(x and x[0] == "comp" for x in subterms(a)) and not any(x == u for x in subterms(a))
            relevant = {id(p): [(a, v) for a, v in p.decisions if any(x == u or x == w for x in subterms(a))] for p in ps}

            def whole_refusal(p):
                # a refusal decided by the index as a whole (its length, ...) is not a row of the per-element table
                if p.terminal[0] != "raise":
                    return False
                for c_, _ in reversed(getattr(p.terminal[1], "ctrl_conds", ())):
                    if c_.t and c_.t[0] in ("iter", "handler"):
                        continue
                    return whole(c_.t)
                return False
            ps = [p for p in ps if not whole_refusal(p)]
            for win in windows:
                for uv in reps:
                    n = win.stop - win.start
                    # ---- spec (Python/NumPy semantics)
                    if isinstance(uv, int):
                        want = ("return", win.start + (uv if uv >= 0 else n + uv)) if -n <= uv < n else ("raise", "OutOfBounds")
                    else:
                        st = 1 if uv.step is None else uv.step
                        if st < 0:
                            want = ("raise", "ValueError")
                        else:
                            want = ("set", [win.start + i for i in range(*uv.indices(n))])

                    def leaf(t, uv=uv, win=win, u=u, w=w):
                        if t == u:
                            return uv
                        if t == w:
                            return win
                        return NOTHING
                    te = TermEval(leaf)
                    hit = []
                    memo = {}
                    for p in ps:
                        ok = True
                        for a, v in relevant[id(p)]:
                            r = memo.get(a, NOTHING)
                            if r is NOTHING:
                                try:
                                    r = te.atom(a)
                                except Unknown as e:
                                    if whole(a):
                                        continue    # about the index as a whole: decided in the expansion table, free here
                                    raise AnalysisError("C06.R2: the index transformation depends on an unmodelled condition %s (%s)" % (show(a)[:120], e))
                                except (TypeError, AttributeError, ValueError):
                                    r = "n/a"   # guard not evaluable for this kind of index: path does not apply
                                memo[a] = r
                            if r != v:
                                ok = False
                                break
                        if ok:
                            hit.append(p)
                    key = "elem/%s/%s" % (win, uv)
                    if len(hit) > 1 and len({(h_.terminal[0], h_.terminal[1].t if h_.terminal[0] == "return" else h_.terminal[1].cls) for h_ in hit}) == 1:
                        hit = hit[:1]       # rows that differ only in decisions about the index as a whole
                    if len(hit) != 1:
                        if nbad < 5:
                            rep.bad(R2, key, "%d rows of the extracted table apply to index %r on window %r (expected exactly one)" % (len(hit), uv, win),
                                    site=f.file + ":%d" % f.node.lineno)
                        nbad += 1
                        continue
                    p = hit[0]
                    if p.terminal[0] == "raise":
                        got = ("raise", p.terminal[1].cls)
                    else:
                        rt = p.terminal[1].t
                        # the per-element code in a comprehension: its element expression, evaluated for element 0 like a loop body
                        while rt and rt[0] == "call" and rt[1] in ("tuple", "list") and len(rt[2]) == 1:
                            rt = rt[2][0]
                        if rt and rt[0] == "comp" and len(rt[3]) == 1 and not rt[4]:
                            rt = ("list", (rt[2],))
                        try:
                            val = te.ev(rt)
                        except Unknown as e:
                            raise AnalysisError("C06.R2: cannot evaluate the transformed index %s (%s)" % (show(p.terminal[1].t)[:120], e))
                        val = val[0] if isinstance(val, (tuple, list)) and len(val) == 1 else val
                        got = ("return", val)
                    if want[0] == "set":
                        # a negative bound handed to the array would be read relative to the end of the *array*, not of the view
                        okc = got[0] == "return" and isinstance(got[1], slice) and got[1].start >= 0 and got[1].stop >= 0 and \
                            list(range(got[1].start, got[1].stop, got[1].step or 1)) == want[1] and \
                            all(win.start <= i < win.stop for i in want[1])
                        wtxt = "the elements %s" % want[1]
                    else:
                        okc = got == want
                        wtxt = str(want)
                    if not okc and nbad >= 5:
                        nbad += 1
                        continue
                    if not okc:
                        nbad += 1
                    rep.check(R2, key, okc, "index %r on a view over %r is transformed to %s; NumPy semantics require %s" % (uv, win, got, wtxt),
                              site=f.file + ":%d" % f.node.lineno, detail=describe_path(p) if not okc else None)
        rep.stats["transform_groups"] = len(groups)

    # ---------------------------------------------------------------- R2b ellipsis / padding expansion
    from .common import private_helper
    g = private_helper(ctx, "DataView", "_expand_user_slices", [view_transform(ctx)])
    if g is None:
        rep.bad(R2, "DataView._expand_user_slices", "required mechanism not found")
    else:
        paths = ctx.paths(g, "DataView")
        for rank in (1, 2, 3, 4):
            cands = []
            for L in range(0, rank + 2):         # rank + 1: an ellipsis that stands for zero axes next to `rank` indices
                for tpl in itertools.product((1, slice(None, 2), Ellipsis), repeat=L):
                    if len(tpl) - tpl.count(Ellipsis) <= rank and (L <= rank or tpl.count(Ellipsis) == 1):
                        cands.append(tpl)
            cands.append(3)             # a bare index
            for us in cands:
                tup = us if isinstance(us, tuple) else (us,)
                nell = tup.count(Ellipsis)
                if nell > 1:
                    want = ("raise", "IndexError")
                elif nell == 1:
                    i = tup.index(Ellipsis)
                    want = ("return", tup[:i] + (slice(None),) * (rank - len(tup) + 1) + tup[i + 1:])
                else:
                    want = ("return", tup + (slice(None),) * (rank - len(tup)))

                def leaf(t, us=us, rank=rank):
                    if t == ("param", "user_slices"):
                        return us
                    if t[0] == "call" and t[1] == "len" and any(x == SLICES for x in subterms(t)):
                        return rank
                    if t == ("attr", ("self",), "_valid"):
                        return True
                    return NOTHING
                te = TermEval(leaf)
                hit = []
                for p in paths:
                    ok = True
                    for a, v in p.decisions:
                        try:
                            if te.atom(a) != v:
                                ok = False
                                break
                        except Unknown as e:
                            raise AnalysisError("C06.R2: the index expansion depends on an unmodelled condition %s (%s)" % (show(a)[:120], e))
                        except (TypeError, AttributeError, ValueError):
                            ok = False
                            break
                    if ok:
                        hit.append(p)
                key = "expand/rank%d/%r" % (rank, us)
                if len(hit) != 1:
                    rep.bad(R2, key, ("no abstract path of the index expansion is consistent with the index %r (a guard fails or is "
                                      "contradicted on every path)" % (us,) if not hit else
                                      "%d abstract paths of the index expansion apply to %r at once" % (len(hit), us)), site=g.file)
                    continue
                p = hit[0]
                if p.terminal[0] == "raise":
                    got = ("raise", p.terminal[1].cls)
                else:
                    try:
                        got = ("return", tuple(te.ev(p.terminal[1].t)))
                    except Unknown as e:
                        raise AnalysisError("C06.R2: cannot evaluate the expanded index (%s)" % e)
                rep.check(R2, key, got == want, "index %r on a rank-%d view is expanded to %s; NumPy semantics require %s" % (us, rank, got, want),
                          site=g.file + ":%d" % g.node.lineno, detail=describe_path(p) if got != want else None)

    # ---------------------------------------------------------------- R3
    init = ctx.member("DataView", "__init__")
    if init is None:
        rep.bad(R3, "DataView.__init__", "required mechanism not found")
    else:
        paths = ctx.paths(init, "DataView")
        ext = (5, 3)
        reps = [None, (slice(1, 4), slice(0, 3)), (slice(1, 5), slice(0, 2)), (slice(1, 6), slice(0, 2)), (slice(0, 2), slice(1, 4)),
                (slice(1, 4),), (slice(1, 4), slice(0, 1), slice(0, 1)), (slice(1, 4), None), (None, slice(0, 2)), (slice(5, 6), slice(0, 1)),
                (slice(0, 5), slice(0, 3)), (slice(4, 5), slice(2, 3)), (slice(0, 1), slice(3, 4)), (slice(-2, None), slice(0, 3))]
        for sl in reps:
            want = sl is not None and all(sl) and len(sl) == len(ext) and not any(
                (s.stop if s.stop is not None else e) > e for s, e in zip(sl, ext))

            def leaf(t, sl=sl):
                if t == ("param", "slices"):
                    return sl
                if t in (("attr", ("param", "da"), "shape"), ("attr", ("param", "da"), "data_extent")):
                    return ext
                return NOTHING
            te = TermEval(leaf)
            hit = []
            for p in paths:
                ok = True
                for a, v in p.decisions:
                    try:
                        if te.atom(a) != v:
                            ok = False
                            break
                    except Unknown as e:
                        raise AnalysisError("C06.R3: window validity depends on an unmodelled condition %s (%s)" % (show(a)[:120], e))
                    except (TypeError, AttributeError):
                        ok = False
                        break
                if ok:
                    hit.append(p)
            key = "window %r on extent %r" % (sl, ext)
            if sl is not None and any(s is not None and s.stop is None for s in sl if s is not None):
                continue
            if len(hit) != 1:
                rep.bad(R3, key, ("no abstract path of DataView.__init__ is consistent with this window: every path either contradicts "
                                  "one of its own guards or evaluates a guard that fails on it (a comparison with None, a missing "
                                  "attribute) -- constructing the view raises or its validity is undefined" if not hit else
                                  "%d abstract paths of DataView.__init__ apply to this window at once: its validity is not a function "
                                  "of window and extent" % len(hit)), site=init.file)
                continue
            p = hit[0]
            v = p.heap.get((("self",), "_valid"))
            try:
                got = bool(te.ev(v.t)) if v is not None else None
            except (Unknown, TypeError):
                got = None
            rep.check(R3, key, got == want, "a view %r on an array of extent %r is marked %s; it must be %s" % (
                sl, ext, "valid" if got else "invalid", "valid" if want else "invalid"), site=init.file + ":%d" % init.node.lineno,
                detail=describe_path(p) if got != want else None)

    # ---------------------------------------------------------------- R4
    rcfg = Config(M, mode="raw")
    rcfg.compose = False
    ds = M.classes.get("H5DataSet")
    rd = ds.methods.get("read_data") if ds else None
    if rd is None:
        rep.bad(R4, "H5DataSet.read_data", "required mechanism not found")
    else:
        bad = None
        ntr = 0
        for p in explore(rcfg, rd, "H5DataSet", None, 4000):
            rr = [a for a, v in p.decisions if a[0] == "rraise" and v]
            if rr:
                ntr += 1
                if p.terminal[0] != "raise" or p.terminal[1].cls != "IndexError":
                    bad = (p, "a %s from the HDF5 subscript surfaces as %s" % (rr[0][4], p.terminal[1].cls if p.terminal[0] == "raise" else "a normal return"))
        rep.check(R4, "H5DataSet.read_data", bad is None and ntr >= 2, bad[1] if bad else "ValueError/TypeError of the subscript are not "
                  "both translated (%d handler path(s))" % ntr, site=rd.file + ":%d" % rd.node.lineno,
                  detail=describe_path(bad[0]) if bad else None)

    # ---------------------------------------------------------------- R6
    reshape_rule(M, rep, R6, ctx)

    # ---------------------------------------------------------------- R8 (shared with C01.R4)
    R8 = rep.rule("C06.R8", "an array hands the index it was given to the storage access unchanged (out-of-range integers stay refusable)", floor=3,
                  technique="argument provenance on all abstract paths (shared with C01.R4)")
    from . import c01
    c01.passthrough_rule(M, rep, R8)

    # ---------------------------------------------------------------- R7
    n = stateless.run(M, rep, R7, only_classes={"DataView", "DataSet"})
    if not n:
        rep.ok(R7, "DataView/DataSet", "no instance attribute is written outside the constructors")
