# -*- coding: utf-8 -*-
"""
C19 -- timestamps. Decided statically (necessary conditions):
 R1  every setter the statement names stamps `updated_at` of *its own* entity on every normal path that
     writes, iff the auto-update switch is on (guarded stamp, path-sensitive, interprocedural)
 R2  no API member stamps `updated_at` outside creation / force_* unless the switch was tested true
 R3  `created_at` is written only by creation and force_created_at
 R5  time_to_str / str_to_time use the same format literal and the same (UTC, 1970) convention
"""
import ast
from .common import Ctx, surface, term_has_attr, api_key, describe_path, const_str, ENTITY_CLASSES
from nixsa.px import explore
from nixsa.model import AnalysisError
from nixsa.values import subterms, show, is_const

# Appendix A.10 of DESIGN.md: written from the property statement
REQUIRED = [
    ("Block", "type", "setters"), ("Block", "definition", "setters"),
    ("Group", "type", "setters"), ("Group", "definition", "setters"),
    ("Source", "type", "setters"), ("Source", "definition", "setters"),
    ("Section", "type", "setters"), ("Section", "definition", "setters"),
    ("Tag", "type", "setters"), ("Tag", "definition", "setters"),
    ("MultiTag", "type", "setters"), ("MultiTag", "definition", "setters"),
    ("DataFrame", "type", "setters"), ("DataFrame", "definition", "setters"),
    ("DataArray", "type", "setters"), ("DataArray", "definition", "setters"),
    ("DataArray", "label", "setters"), ("DataArray", "unit", "setters"),
    ("DataArray", "polynom_coefficients", "setters"), ("DataArray", "expansion_origin", "setters"),
    ("Tag", "position", "setters"), ("Tag", "extent", "setters"),
    ("Tag", "units", "setters"), ("MultiTag", "units", "setters"),
    ("MultiTag", "positions", "setters"), ("MultiTag", "extents", "setters"),
    ("Section", "reference", "setters"), ("Section", "repository", "setters"),
    ("Feature", "link_type", "setters"), ("Feature", "data", "setters"),
    ("DataFrame", "units", "setters"),
    ("DataArray", "append_set_dimension", "methods"), ("DataArray", "append_sampled_dimension", "methods"),
    ("DataArray", "append_range_dimension", "methods"), ("DataArray", "append_range_dimension_using_self", "methods"),
]
STAMP_KEYS = ("updated_at",)


def switch_attrs(ctx):
    """attribute name(s) behind File.auto_update_timestamps, read off its getter"""
    g = ctx.member("File", "auto_update_timestamps", "getters")
    if g is None:
        return None
    names = set()
    for p in ctx.paths(g, "File"):
        if p.terminal[0] == "return":
            for x in subterms(p.terminal[1].t):
                if x and x[0] == "attr":
                    names.add(x[2])
    names.discard("_file")
    return names or None


def is_stamp(ctx, ev, keys=STAMP_KEYS):
    if not ctx.fx.is_write(ev):
        return False
    k = ctx.fx.key(ev)
    return k in keys or (isinstance(k, bytes) and k.decode() in keys)


def own_group(ev):
    """the event's receiver is the storage group of the analysed entity itself"""
    if ev.recv is None:
        return False
    t = ev.recv.t
    if t == ("attr", ("self",), "_h5group") or t == ("attr", ("self",), "_h5dataset"):
        return True
    # File keeps its timestamps on the h5py file / root group
    if t[0] == "attr" and t[1] in (("attr", ("self",), "_h5file"), ("attr", ("self",), "_root")) and t[2] == "attrs":
        return True
    return False


def switch_state(path, sw):
    """True / False / None: how the auto-update switch was decided on this path"""
    res = None
    for a, v in path.decisions:
        if a[0] == "truthy" and term_has_attr(a[1], sw):
            res = v
    if res is None:
        # the decision may be hidden inside a merged callee outcome
        def walk(notes):
            # ... at any depth (a setter that calls a helper that calls the stamping helper)
            r = None
            for n in notes:
                if n and n[0] == "outcome":
                    for a, v in n[4]:
                        if a[0] == "truthy" and term_has_attr(a[1], sw):
                            r = v
                    if r is None and len(n) > 5:
                        r = walk(n[5])
            return r
        res = walk(path.notes)
    return res


def guarded(ev, sw):
    for c, pol in ev.ctrl:
        if pol and term_has_attr(c.t, sw):
            return True
    return False


def run(M, rep, tier, only=None):
    ctx = Ctx(M)
    sw = switch_attrs(ctx)
    R1 = rep.rule("C19.R1", "named setters stamp their own entity's updated_at on every writing path iff the switch is on",
                  floor=30, technique="path-sensitive abstract interpretation, must-follow on all normal paths")
    R2 = rep.rule("C19.R2", "no updated_at stamp outside creation/force_* without the switch tested true", floor=60,
                  technique="all abstract paths of every mutating API member")
    R8 = rep.rule("C19.R8", "a change moves only the changed entity's own updated_at, never its parent's or the file's", floor=60,
                  technique="receiver of every updated_at write on all abstract paths")
    R3 = rep.rule("C19.R3", "created_at written only by creation and force_created_at", floor=60,
                  technique="event stack inspection on all abstract paths")
    R5 = rep.rule("C19.R5", "time_to_str/str_to_time agree on format and epoch convention", floor=1,
                  technique="constant and callee identity comparison")
    if sw is None:
        rep.bad(R1, "File.auto_update_timestamps", "required mechanism not found: auto-update switch getter")
        sw = {"_auto_update_timestamps"}
    rep.stats["switch_attrs"] = sorted(sw)

    # ---- R1 -------------------------------------------------------------------------------------
    for cn, name, tb in REQUIRED:
        key = api_key(cn, name, tb)
        f = ctx.member(cn, name, tb)
        if f is None:
            rep.bad(R1, key, "required mechanism not found: %s is not defined" % key)
            continue
        paths = ctx.paths(f, cn)
        normal = [p for p in paths if p.normal]
        bad = None
        stamped = 0
        for p in normal:
            writes = [e for e in p.events if ctx.fx.is_observable_write(e) and not is_stamp(ctx, e)
                      and ctx.fx.key(e) != "created_at"]
            if not writes:
                continue
            first = writes[0].idx
            stamps = [e for e in p.events if is_stamp(ctx, e) and own_group(e) and e.idx > first
                      and "create_new" not in [q.split(".")[-1] for q in e.stack[1:]]]
            st = switch_state(p, sw)
            if st is True or st is None:
                if not stamps:
                    bad = (p, "a path writes %s but never stamps updated_at of the entity%s" % (
                        ctx.fx.key(writes[0]) or writes[0].op,
                        "" if st else " (the auto-update switch is not even consulted)"))
                    break
                stamped += 1
            last = writes[-1].idx
            if st is True and stamps and max(s.idx for s in stamps) < last and False:
                pass
        if bad:
            rep.bad(R1, key, bad[1], site=f.file + ":%d" % f.node.lineno, detail=describe_path(bad[0]))
        elif not stamped:
            rep.bad(R1, key, "no writing path of %s stamps updated_at" % key, site=f.file + ":%d" % f.node.lineno)
        else:
            rep.ok(R1, key, "%d writing normal paths, all stamp under the switch" % stamped)

    # ---- R2 / R3 over the whole mutating surface ---------------------------------------------------
    for cn, name, tb, f in surface(M, ENTITY_CLASSES, ("methods", "setters", "deleters")):
        key = api_key(cn, name, tb)
        if name.startswith("force_") or name in ("__init__", "create_new", "open"):
            continue
        if name.startswith("_") and not name.startswith("__"):
            # a private piece of a constructor (File.__init__ split into steps) belongs to creation, like the constructor itself
            from .common import private_part_of
            gates = {g.qual for k_ in M.classes.values() for nm_, g in k_.methods.items() if nm_ in ("__init__", "create_new", "_create_header")}
            if private_part_of(M, f.qual, gates):
                continue
        if name.startswith("create_") or name.startswith("copy_") or name in ("__setitem__", "_create_header"):
            creator = True
        else:
            creator = False
        if not ctx.cg.writes(f):
            rep.ok(R2, key, "cannot reach a storage write (resolved call graph)")
            rep.ok(R3, key, "cannot reach a storage write (resolved call graph)")
            continue
        try:
            paths = ctx.paths(f, cn, max_paths=6000)
        except Exception as e:
            if type(e).__name__ == "Budget":
                rep.notes.append("skipped %s: %s" % (key, e))
                continue
            raise
        v2 = v3 = v8 = None
        for p in paths:
            for e in p.events:
                if not ctx.fx.is_write(e):
                    continue
                k = ctx.fx.key(e)
                if k == "updated_at" and e.kind == "layer" and e.recv is not None and cn != "File" and \
                        e.recv.t != ("attr", ("self",), "_h5group") and e.recv.t and e.recv.t[0] == "attr" and e.recv.t[2] == "_h5group" \
                        and any(x and x[0] == "attr" and x[1] == ("self",) and x[2] in ("_parent", "_file") for x in subterms(e.recv.t)):
                    v8 = v8 or (p, e)       # the update time of the entity's parent / of the file is moved as well
                fn_names = [q.split(":")[-1].split(".")[-1] for q in e.stack]
                creating = any(n in ("create_new", "__init__", "_create_header", "create_property") for n in fn_names[1:]) \
                    or any(n.startswith("copy") for n in fn_names)
                if k == "updated_at" and not creating:
                    if not guarded(e, sw) and "force_updated_at" not in fn_names[:1]:
                        v2 = v2 or (p, e)
                if k == "created_at" and not creating:
                    v3 = v3 or (p, e)
        if v2:
            rep.bad(R2, key, "updated_at is written without the auto-update switch having been tested true",
                    site=v2[1].site, detail=describe_path(v2[0]))
        else:
            rep.ok(R2, key)
        if v3:
            rep.bad(R3, key, "created_at of an existing entity is written", site=v3[1].site, detail=describe_path(v3[0]))
        else:
            rep.ok(R3, key)
        if v8:
            rep.bad(R8, key, "%s also writes updated_at of another entity (%s): the statement allows only the changed entity's own "
                    "update time to move" % (key, show(v8[1].recv.t)), site=v8[1].site, detail=describe_path(v8[0]))
        else:
            rep.ok(R8, key)

    # ---- R9: the switch belongs to the user: library code never assigns it (a temporary "off" that is not restored on
    # every exit silently ends time stamping for the whole session)
    R9 = rep.rule("C19.R9", "no library member assigns the auto-update switch", floor=1,
                  technique="who-may-write a field: assignments to the switch attribute over all functions of the package")
    writers = []
    for q, f_ in sorted(M.funcs.items()):
        nm = f_.node.name
        if nm in ("__init__", "auto_update_timestamps") and f_.cls is not None and f_.cls.name == "File":
            continue
        for n_ in ast.walk(f_.node):
            tg = []
            if isinstance(n_, ast.Assign):
                tg = n_.targets
            elif isinstance(n_, (ast.AugAssign, ast.AnnAssign)):
                tg = [n_.target]
            for t_ in tg:
                if isinstance(t_, ast.Attribute) and t_.attr in ("auto_update_timestamps", "_auto_update_timestamps"):
                    writers.append("%s (%s:%d)" % (q.split(":")[-1], f_.file, n_.lineno))
    rep.check(R9, "switch writers", not writers, "the auto-update switch is assigned by library code: %s -- if the code between switching it "
              "off and on again raises, time stamping stays off for every later change" % ", ".join(writers), site=None,
              what="only File.__init__ and the public setter assign it")

    # ---- R10: closing and flushing a file change nothing in it: a forced update time must read back after reopening
    R10 = rep.rule("C19.R10", "File.close / File.flush write no attribute", floor=2, technique="event absence on all abstract paths")
    for nm in ("close", "flush"):
        fcl = ctx.member("File", nm)
        if fcl is None:
            rep.bad(R10, "File." + nm, "required mechanism not found")
            continue
        badc = None
        for p in ctx.paths(fcl, "File"):
            for e in p.events:
                if ctx.fx.is_write(e) and ctx.fx.key(e) in ("updated_at", "created_at"):
                    badc = (p, e)
        rep.check(R10, "File." + nm, badc is None, "File.%s writes %s: the update time recorded in the file is no longer the time of the last "
                  "change (and a forced time does not read back)" % (nm, ctx.fx.key(badc[1]) if badc else ""),
                  site=badc[1].site if badc else None, detail=describe_path(badc[0]) if badc else None)

    # ---- R11: opening a file stamps its header only where the stamp is missing: an existing creation / update time is never
    # rewritten by the constructor (whatever the two times are, whatever the mode)
    R11 = rep.rule("C19.R11", "File.__init__ writes created_at / updated_at only when the header lacks them", floor=2,
                   technique="every stamp write of the constructor (private pieces inlined) lies on a path that decided the key absent")
    fi = ctx.member("File", "__init__")
    if fi is None:
        rep.bad(R11, "File.__init__", "required mechanism not found")
    else:
        ictx = Ctx(M, coarse=False)
        ictx.cfg.compose = False
        seen_w = {}
        badw = None
        for p in ictx.paths(fi, "File", max_paths=40000):
            for e in p.events:
                if not ictx.fx.is_write(e):
                    continue
                k = ictx.fx.key(e)
                if k not in ("created_at", "updated_at"):
                    continue
                absent = any(v is False and a[0] in ("truthy", "contains", "cmp") and
                             any(x == ("const", k) for x in subterms(a)) for a, v in p.decisions) or \
                    any(v is True and a[0] == "isnone" and any(x == ("const", k) for x in subterms(a)) for a, v in p.decisions)
                created = any(ev.kind == "raw" and ev.op in ("h5py.h5f.create",) for ev in p.events)
                seen_w[k] = seen_w.get(k, 0) + 1
                if not absent and not created and badw is None:
                    badw = (p, e, k)
        for k in ("created_at", "updated_at"):
            rep.check(R11, "File.__init__/" + k, seen_w.get(k, 0) > 0 and (badw is None or badw[2] != k),
                      ("opening an existing file rewrites its %s although the header has one: a creation time / forced time does "
                       "not survive reopening" % k) if badw is not None and badw[2] == k else "required mechanism not found: the constructor never stamps " + k,
                      site=badw[1].site if badw is not None and badw[2] == k else fi.file,
                      detail=describe_path(badw[0]) if badw is not None and badw[2] == k else None)

    # ---- R12: the automatic stamp is the current time and nothing else (not the later of now and what is stored, not a
    # rounded or shifted value): with no time given, what force_updated_at / force_created_at write derives from the clock only,
    # on a path that reads nothing from the file; with a time given, from that argument only
    R12 = rep.rule("C19.R12", "force_updated_at / force_created_at write the clock (no time given) or the given time, nothing read from the file",
                   floor=4, technique="provenance of the written term and event absence on all abstract paths")
    for cn in ("Entity", "File", "Feature"):
        for nm, k in (("force_updated_at", "updated_at"), ("force_created_at", "created_at")):
            fo = ctx.member(cn, nm)
            if fo is None:
                continue
            bad12 = None
            n12 = 0
            for p in ctx.paths(fo, cn):
                ws = [e for e in p.events if ctx.fx.is_write(e) and ctx.fx.key(e) == k]
                if not ws:
                    continue
                n12 += 1
                given = [v for a, v in p.decisions if a[0] in ("isnone", "truthy") and a[1] == ("param", fo.params[1] if len(fo.params) > 1 else "time")]
                reads = [e for e in p.events if e.idx < ws[0].idx and e.kind in ("layer", "raw") and not ctx.fx.is_write(e) and
                         ctx.fx.key(e) in ("updated_at", "created_at")]
                val = ws[0].args[-1].t if ws[0].args else None
                has_clock = val is not None and any(x and x[0] in ("call", "ext", "mcall") and "now" in str(x[1]) or
                                                    (x and x[0] == "call" and "time" in str(x[1]).split(".")[-1:]) for x in subterms(val))
                from_file = val is not None and any(x and x[0] in ("rd", "lres") for x in subterms(val))
                if reads or from_file:
                    bad12 = (p, ws[0], "%s.%s reads the stored %s before stamping / writes a value that depends on it: the stamp is not "
                             "simply the current (or the given) time" % (cn, nm, ctx.fx.key(reads[0]) if reads else k))
            rep.check(R12, "%s.%s" % (cn, nm), bad12 is None and n12 > 0, bad12[2] if bad12 else "no stamping path",
                      site=bad12[1].site if bad12 else fo.file, detail=describe_path(bad12[0]) if bad12 else None)

    _r6(M, rep, ctx)
    _r7(M, rep)

    # ---- R5 ---------------------------------------------------------------------------------------
    u = M.modules.get("nixio.util.util")
    t2s = u.funcs.get("time_to_str") if u else None
    s2t = u.funcs.get("str_to_time") if u else None
    if not t2s or not s2t:
        rep.bad(R5, "util.time_to_str/str_to_time", "required mechanism not found")
    else:
        # on the returned terms of all abstract paths (helpers inlined, module constants resolved)
        c5 = Ctx(M, coarse=False)
        c5.cfg.compose = False

        def returned(f):
            out = []
            for p in explore(c5.cfg, f, None, None, 500):
                if p.terminal[0] == "return":
                    out.append(p.terminal[1].t)
            return out

        def fmts(terms, meth):
            out = set()
            for t in terms:
                for x in subterms(t):
                    if x and x[0] == "mcall" and x[1] == meth:
                        out |= {a[1] for a in x[3] if a and a[0] == "const" and isinstance(a[1], str) and "%" in a[1]}
                    if x and x[0] == "call" and isinstance(x[1], str) and x[1].split(".")[-1] == meth:
                        out |= {a[1] for a in x[2] if a and a[0] == "const" and isinstance(a[1], str) and "%" in a[1]}
            return sorted(out)
        r1, r2 = returned(t2s), returned(s2t)
        f1, f2 = fmts(r1, "strftime"), fmts(r2, "strptime")
        ok_fmt = len(f1) == 1 and f1 == f2
        rep.check(R5, "format", ok_fmt, "time_to_str uses %r but str_to_time parses %r" % (f1, f2),
                  site=t2s.file, what="both use %r" % (f1[0] if f1 else None))
        names1 = {x[1].split(".")[-1] for t in r1 for x in subterms(t) if x and x[0] in ("call", "mcall") and isinstance(x[1], str)} | \
                 {x[1].split(".")[-1] for t in r1 for x in subterms(t) if x and x[0] == "ext" and isinstance(x[1], str)}
        utc = bool(names1 & {"utcfromtimestamp", "gmtime", "timegm", "utc", "UTC"})
        local = "fromtimestamp" in names1 and not utc
        if local:
            rep.bad(R5, "epoch", "time_to_str converts with local time while str_to_time assumes UTC since 1970-01-01",
                    site=t2s.file)
        elif utc:
            epoch = any(x and x[0] == "call" and isinstance(x[1], str) and x[1].split(".")[-1] == "datetime" and
                        tuple(a[1] for a in x[2] if a and a[0] == "const")[:3] == (1970, 1, 1) for t in r2 for x in subterms(t))
            timegm = any(x and x[0] == "call" and isinstance(x[1], str) and x[1].split(".")[-1] == "timegm" for t in r2 for x in subterms(t))
            rep.check(R5, "epoch", epoch or timegm,
                      "str_to_time does not count from 1970-01-01 UTC", site=s2t.file, what="UTC both ways, epoch 1970")
        else:
            raise AnalysisError("C19.R5: cannot classify the time conversion idiom of time_to_str")


def _r6(M, rep, ctx):
    """C19.R6 -- force_created_at / force_updated_at store the time they are given: the written value may ignore the
    `time` argument only on a path where that argument was decided to be None *by identity* (0 = 1970-01-01 is a
    legal whole second and is falsy)."""
    from nixsa.values import vparams
    R6 = rep.rule("C19.R6", "a forced timestamp is stored as given unless it is None (by identity)", floor=4,
                  technique="value dependency of the stamp write vs the None-decision on all abstract paths")
    nctx = Ctx(M, coarse=False)
    nctx.cfg.compose = False
    for cn in ("Entity", "File"):
        for name, key in (("force_created_at", "created_at"), ("force_updated_at", "updated_at")):
            f = nctx.member(cn, name)
            ident = "%s.%s" % (cn, name)
            if f is None:
                rep.bad(R6, ident, "required mechanism not found")
                continue
            pname = [p for p in f.params[1:]][:1]
            if not pname:
                rep.bad(R6, ident, "required mechanism not found: no time parameter")
                continue
            pname = pname[0]
            bad = None
            ngiven = 0
            for p in nctx.paths(f, cn):
                if not p.normal:
                    continue
                ws = [e for e in p.events if ctx.fx.is_write(e) and ctx.fx.key(e) == key]
                if not ws:
                    bad = (p, "a normal path does not write %s" % key)
                    break
                w = ws[-1]
                val = w.kw.get("value") or (w.args[1] if len(w.args) > 1 else None)
                dep = val is not None and pname in vparams(val) and any(
                    x == ("param", pname) for x in subterms(val.t))
                none_dec = [v for a, v in p.decisions if a == ("isnone", ("param", pname))]
                if dep:
                    ngiven += 1
                    continue
                if not (none_dec and none_dec[0] is True):
                    bad = (p, "the stored %s ignores the given time although it was not decided to be None "
                           "(a falsy time such as 0 is replaced by the current time)" % key)
                    break
            rep.check(R6, ident, bad is None and ngiven > 0, bad[1] if bad else "no path stores the given time",
                      site=f.file + ":%d" % f.node.lineno, detail=describe_path(bad[0]) if bad else None)


def _r7(M, rep):
    """C19.R7 -- the auto-update switch given at open time is the one the guards consult"""
    R7 = rep.rule("C19.R7", "the switch given to File.open / File(...) is what the setters consult", floor=2,
                  technique="field provenance on all abstract paths of the constructor entry points")
    nctx = Ctx(M, coarse=False)
    nctx.cfg.compose = False
    g = nctx.member("File", "auto_update_timestamps", "getters")
    field = None
    if g is not None:
        for p in nctx.paths(g, "File"):
            if p.normal and p.terminal[1].t[0] == "attr" and p.terminal[1].t[1] == ("self",):
                field = p.terminal[1].t[2]
    rep.check(R7, "File.auto_update_timestamps", field is not None, "the switch is not read from a field of the file object", what="field %s" % field)
    if field is None:
        return
    cctx = Ctx(M)
    for name in ("__init__", "open"):
        f = cctx.member("File", name)
        key = "File." + name
        if f is None:
            rep.bad(R7, key, "required mechanism not found")
            continue
        bad = None
        n = 0
        for p in cctx.paths(f, "File", max_paths=30000):
            if not p.normal:
                continue
            vals = [v for (r, a), v in p.heap.items() if a == field and (r == ("self",) or (r and r[0] == "inst" and r[1] == "File"))]
            if not vals:
                continue
            n += 1
            if vals[0].t != ("param", "auto_update_timestamps"):
                bad = (p, "the file's switch is set to %s, not to the auto_update_timestamps argument" % show(vals[0].t)[:80])
        rep.check(R7, key, bad is None and n > 0, bad[1] if bad else "the constructor path never sets the switch", site=f.file + ":%d" % f.node.lineno,
                  detail=describe_path(bad[0], 20) if bad else None)
