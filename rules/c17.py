# -*- coding: utf-8 -*-
"""
C17 -- flush()/close() durability. The property itself (state on disk after SIGKILL) is a run-time / OS property and
is NOT decided. Decided statically are its necessary conditions inside nixio:
 R1  File.flush reaches h5py File.flush on the file's own handle on every normal path
 R2  File.close reaches h5py File.close on every normal path (nothing swallows it)
 R3  nixio keeps no write-back state of its own (shared with C02.R2/R6: setters are write-through, containers stateless)
"""
from .common import Ctx, describe_path
from . import c02


def run(M, rep, tier, only=None):
    ctx = Ctx(M)
    R1 = rep.rule("C17.R1", "File.flush delegates to h5py flush on every normal path", floor=1,
                  technique="must-pass-through on all abstract paths")
    R2 = rep.rule("C17.R2", "File.close reaches h5py close on every normal path", floor=1,
                  technique="must-pass-through on all abstract paths")
    for rid, nm, need in ((R1, "flush", "file.flush"), (R2, "close", "file.close")):
        f = ctx.member("File", nm)
        if f is None:
            rep.bad(rid, "File." + nm, "required mechanism not found")
            continue
        badp = None
        paths = ctx.paths(f, "File")
        for p in paths:
            hit = [e for e in p.events if e.kind == "raw" and e.op == need and e.recv is not None
                   and e.recv.t == ("attr", ("self",), "_h5file")]
            if p.normal and not hit:
                badp = p
        if not any(p.normal for p in paths):
            rep.bad(rid, "File." + nm, "File.%s never returns normally" % nm, site=f.file)
        else:
            rep.check(rid, "File." + nm, badp is None, "a normal path of File.%s does not call h5py %s on the file handle" % (nm, need),
                      site=f.file + ":%d" % f.node.lineno, detail=describe_path(badp) if badp else None)
    # R3: no write-back layer (re-uses the C02 rules; reported under C17 ids)
    class Sub:
        pass
    sub_rules = {}
    orig_rule = rep.rule

    def rule(rid, title, floor=0, technique=""):
        if rid in ("C02.R2", "C02.R6", "C02.R7"):
            return orig_rule(rid.replace("C02.R2", "C17.R3a").replace("C02.R6", "C17.R3b").replace("C02.R7", "C17.R3c"), title, floor, technique)
        sub_rules[rid] = True
        return orig_rule("_" + rid, title, 0, technique)
    rep.rule = rule
    orig_ok, orig_bad, orig_check = rep.ok, rep.bad, rep.check
    ren = {"C02.R2": "C17.R3a", "C02.R6": "C17.R3b", "C02.R7": "C17.R3c"}

    def fix(rid):
        return ren.get(rid, "_" + rid if not rid.startswith("C17") and not rid.startswith("_") else rid)
    rep.ok = lambda rid, *a, **k: orig_ok(fix(rid), *a, **k)
    rep.bad = lambda rid, *a, **k: orig_bad(fix(rid), *a, **k)
    rep.check = lambda rid, key, cond, *a, **k: (orig_ok(fix(rid), key, k.get("what")) if cond else orig_bad(fix(rid), key, *a, **{x: y for x, y in k.items() if x != "what"})) or cond
    try:
        c02.run(M, rep, tier, only)
    finally:
        rep.rule, rep.ok, rep.bad, rep.check = orig_rule, orig_ok, orig_bad, orig_check
    for rid in list(rep.rules):
        if rid.startswith("_"):
            del rep.rules[rid]
