# -*- coding: utf-8 -*-
"""
C17 -- flush()/close() durability. The property itself (state on disk after SIGKILL) is a run-time / OS property and
is NOT decided. Decided statically are its necessary conditions inside nixio:
 R1  File.flush reaches h5py File.flush on the file's own handle on every normal path
 R2  File.close reaches h5py File.close on every normal path (nothing swallows it)
 R3  nixio keeps no write-back state of its own (shared with C02.R2/R6: setters are write-through, containers stateless)
"""
from .common import Ctx, describe_path
from . import c02


def run(M, rep, tier, only=None):
    ctx = Ctx(M)
    R1 = rep.rule("C17.R1", "File.flush delegates to h5py flush on every normal path", floor=1,
                  technique="must-pass-through on all abstract paths")
    R2 = rep.rule("C17.R2", "File.close reaches h5py close on every normal path", floor=1,
                  technique="must-pass-through on all abstract paths")
    for rid, nm, need in ((R1, "flush", "file.flush"), (R2, "close", "file.close")):
        f = ctx.member("File", nm)
        if f is None:
            rep.bad(rid, "File." + nm, "required mechanism not found")
            continue
        badp = None
        late_write = [None]
        paths = ctx.paths(f, "File")
        for p in paths:
            hit = [e for e in p.events if e.kind == "raw" and e.op == need and e.recv is not None
                   and e.recv.t == ("attr", ("self",), "_h5file")]
            if p.normal and not hit:
                badp = p
            if p.normal and hit and nm == "flush":
                late = [e for e in p.events if e.idx > hit[-1].idx and ctx.fx.is_write(e)]
                if late:
                    badp = p
                    late_write[0] = late[0]
        if not any(p.normal for p in paths):
            rep.bad(rid, "File." + nm, "File.%s never returns normally" % nm, site=f.file)
        else:
            rep.check(rid, "File." + nm, badp is None, ("File.flush writes (%s) after the h5py flush: what it wrote is not on disk when flush "
                      "returns" % late_write[0].brief()[:80]) if late_write[0] is not None else
                      "a normal path of File.%s does not call h5py %s on the file handle" % (nm, need),
                      site=f.file + ":%d" % f.node.lineno, detail=describe_path(badp) if badp else None)
    # R3: no write-back layer (re-uses the C02 rules; reported under C17 ids)
    class Sub:
        pass
    sub_rules = {}
    orig_rule = rep.rule

    def rule(rid, title, floor=0, technique=""):
        if rid in ("C02.R2", "C02.R6", "C02.R7"):
            return orig_rule(rid.replace("C02.R2", "C17.R3a").replace("C02.R6", "C17.R3b").replace("C02.R7", "C17.R3c"), title, floor, technique)
        sub_rules[rid] = True
        return orig_rule("_" + rid, title, 0, technique)
    rep.rule = rule
    orig_ok, orig_bad, orig_check = rep.ok, rep.bad, rep.check
    ren = {"C02.R2": "C17.R3a", "C02.R6": "C17.R3b", "C02.R7": "C17.R3c"}

    def fix(rid):
        return ren.get(rid, "_" + rid if not rid.startswith("C17") and not rid.startswith("_") else rid)
    rep.ok = lambda rid, *a, **k: orig_ok(fix(rid), *a, **k)
    rep.bad = lambda rid, *a, **k: orig_bad(fix(rid), *a, **k)
    rep.check = lambda rid, key, cond, *a, **k: (orig_ok(fix(rid), key, k.get("what")) if cond else orig_bad(fix(rid), key, *a, **{x: y for x, y in k.items() if x != "what"})) or cond
    try:
        c02.run(M, rep, tier, only)
    finally:
        rep.rule, rep.ok, rep.bad, rep.check = orig_rule, orig_ok, orig_bad, orig_check
    for rid in list(rep.rules):
        if rid.startswith("_"):
            del rep.rules[rid]
    _r4(M, rep, ctx)
    # ---- R5 (shared with C11.R6): what flush() persists goes to the file that was named
    from .common import run_shared
    from . import c11
    run_shared(c11, M, rep, tier, {"C11.R6": "C17.R5", "C11.R4": "C17.R6"})


# HDF5 property-list operations and what they mean for "flushed data can be opened after a kill" (HDF5 reference manual):
#   neutral   : no influence on what is on disk after H5Fflush / on whether the file opens afterwards
#   hazard(f) : f(event) -> reason string when the setting breaks it
def _libver(ev):
    from nixsa.values import show
    low = ev.args[0] if ev.args else ev.kw.get("low")
    s = show(low.t) if low is not None else "?"
    if "LIBVER_EARLIEST" in s:
        return None
    return ("a low library-version bound of %s selects a superblock version (>= 2) that carries a 'file is open for "
            "writing' consistency flag; it is cleared only by a clean close, so a file that was flushed and then killed is "
            "refused by HDF5 on the next open" % s)


def _core(ev):
    from nixsa.values import show, is_const
    bs = ev.kw.get("backing_store") or (ev.args[1] if len(ev.args) > 1 else None)
    if bs is not None and is_const(bs) and not bs.t[1]:
        return "the in-memory (core) driver without backing store never writes the file"
    return "the in-memory (core) driver writes the file only when it is closed, a flush leaves nothing on disk"


PLIST_OPS = {
    "set_link_creation_order": None, "set_attr_creation_order": None, "set_fclose_degree": None, "set_cache": None,
    "set_sieve_buf_size": None, "set_meta_block_size": None, "set_alignment": None, "set_userblock": None,
    "set_sizes": None, "set_sym_k": None, "set_istore_k": None, "set_char_encoding": None, "set_fapl_sec2": None,
    "set_create_intermediate_group": None, "set_file_space_strategy": None, "set_chunk_cache": None, "set_gc_references": None,
    "set_libver_bounds": _libver, "set_fapl_core": _core,
    "copy": None, "equal": None, "get_class": None, "close": None,
}


def _r4(M, rep, ctx):
    """R4: the property lists used to create/open the HDF5 file carry no setting that makes a flushed file unopenable"""
    from nixsa.model import AnalysisError
    R4 = rep.rule("C17.R4", "file creation/access property lists keep flushed files openable after a kill", floor=1,
                  technique="classification of every HDF5 property-list operation reaching h5f.create/open (HDF5 semantics table)")
    f = ctx.member("File", "__init__")
    if f is None:
        rep.bad(R4, "File.__init__", "required mechanism not found")
        return
    seen = {}
    bad = None
    for p in ctx.paths(f, "File"):
        for e in p.events:
            if e.kind == "raw" and e.op.startswith("plist."):
                m = e.op.split(".", 1)[1]
                if m.startswith("get_"):
                    continue
                if m not in PLIST_OPS:
                    raise AnalysisError("C17.R4: HDF5 property-list operation %s at %s is not in the analyser's table "
                                        "(cannot classify its effect on durability)" % (m, e.site))
                seen.setdefault(m, e.site)
                h = PLIST_OPS[m]
                why = h(e) if h else None
                if why:
                    bad = (p, e, why)
            if e.kind == "raw" and e.op in ("h5py.h5f.open", "h5py.h5f.create"):
                fl = e.kw.get("flags")
                from nixsa.values import show
                if fl is not None and "SWMR" in show(fl.t):
                    bad = (p, e, "single-writer/multiple-reader mode changes the on-disk consistency protocol")
    rep.check(R4, "File.__init__", bad is None, "File.__init__ configures HDF5 so that %s" % (bad[2] if bad else ""),
              site=bad[1].site if bad else f.file, detail=describe_path(bad[0]) if bad else None,
              what="property-list operations: %s" % sorted(seen))
