# -*- coding: utf-8 -*-
"""
C10 -- typed property values; sections as ordered dicts. Decided statically:
 R1  in Property.values (setter), extend_values, Section.create_property and Section.__setitem__ no storage write precedes
     a type refusal (TypeError / ValueError): a refused assignment leaves the stored values unchanged
 R2  the type check of new values compares with the property's stored type AND checks every element (both on the
     non-ndarray path)
 R3  DataType.get_dtype maps bool -> Bool, integers -> Int64, reals -> Double, str -> String and refuses everything else;
     (sub)types are tested before their supertypes (bool before Integral before Real)
 R4  extents: extend_values enlarges to old length + number of new values and writes the new values behind the old
     ones; the values setter resizes to the shape of the new list before writing it; delete_values resizes to 0
 R5  dictionary protocol of Section: len / delete / membership / iteration / assignment / lookup delegate to the
     property (and subsection) containers as the statement says
 R6  a section keeps no per-handle property table (shared stateless-handle rule)
"""
import ast
from .common import Ctx, describe_path
from nixsa.px import explore
from nixsa.px_core import Budget
from nixsa.model import AnalysisError
from nixsa.dtable import TermEval, NOTHING, Unknown
from nixsa.values import show, is_const, subterms, params_of
from . import stateless
import numbers

DS = ("attr", ("self",), "_h5dataset")


def type_check_fn(ctx):
    """the value-type check of Property: by name, else the private helper both value mutators call"""
    from .common import private_helper
    return private_helper(ctx, "Property", "_check_new_value_types",
                          [("Property", "values", "setters"), ("Property", "extend_values", "methods")],
                          pick=lambda h: len(h.node.args.args) == 2)


def create_property_table(M, rep, R):
    """Section.create_property(name, <list of values>): a list of one type is created, a mixed list is refused BEFORE the
    property is created (a refusal by the value setter afterwards would leave a half-made property behind). The decision
    table of create_property up to the creation (two unrolled elements; the creation and the value setter are opaque) is
    evaluated on value lists. Shared with C12."""
    from nixsa.dtable import TermEval, NOTHING, Unknown
    c3 = Ctx(M, coarse=False, unroll=2)
    c3.cfg.compose = False
    c3.cfg.unroll_comps = True      # an any(...) / all(...) over the values is looked at element by element, like the loop form
    f = c3.member("Section", "create_property")
    cn_ = c3.member("Property", "create_new")
    vs = c3.member("Property", "values", "setters")
    gd = c3.member("DataType", "get_dtype")
    if f is None or cn_ is None or gd is None:
        rep.bad(R, "Section.create_property", "required mechanism not found")
        return
    c3.cfg.opaque[cn_.qual] = ("obj", "Property")
    c3.cfg.opaque[gd.qual] = ("py", "type")
    if vs is not None:
        c3.cfg.opaque[vs.qual] = ("const", None)
    try:
        paths = c3.paths(f, "Section", max_paths=40000)
    except Budget:
        raise AnalysisError("C10: too many abstract paths in Section.create_property (unroll 2)")

    def pytype(v):
        return "Bool" if isinstance(v, bool) else "Int64" if isinstance(v, int) else "Double" if isinstance(v, float) else \
            "String" if isinstance(v, str) else None
    for data in ([1, 2], [1, 2.5], [2.5, 1], [1, "a"], ["a", 1], [True, 1], [1, True], ["a", "b"], [1.5, 2.5], [True, False], [1.5, True]):
        want_ok = len({pytype(x) for x in data}) == 1

        def leaf(t, data=data):
            if t == ("param", "values_or_dtype"):
                return data
            if t == ("param", "copy_from") or t == ("param", "oid"):
                return None
            if t == ("param", "name"):
                return "p"
            if t[0] == "elem" and t[1] == ("param", "values_or_dtype"):
                return data[t[2]] if t[2] < len(data) else NOTHING
            if t[0] in ("call", "ocall") and isinstance(t[1], str) and t[1] == gd.qual and t[2]:
                # the (opaque) type inference applied to the list or one of its elements: stands for the element's type name
                try:
                    return pytype(value_of(t[2][0]))
                except KeyError:
                    return NOTHING
            return NOTHING

        def value_of(t, data=data):
            # the python value a term stands for, if it is the list or one of its elements
            if t == ("param", "values_or_dtype"):
                return data
            if t and t[0] in ("elem", "idx", "sub") and len(t) > 2 and t[1] == ("param", "values_or_dtype"):
                k = t[2] if isinstance(t[2], int) else (t[2][1] if t[2] and t[2][0] == "const" else None)
                if isinstance(k, int) and k < len(data):
                    return data[k]
            raise KeyError(t)

        def atomfn(a, data=data):
            if a[0] == "iter":
                return a[2] < len(data)
            if a[0] == "in" and a[1] == ("param", "name"):
                return False            # the name is free
            if a[0] == "truthy" and a[1] and a[1][0] == "rd" and a[1][1] == "child":
                return False            # the name is free
            if a[0] in ("oraise", "lraise", "xraise", "rraise"):
                return False            # the representatives are plain bool/int/float/str values: nothing else fails
            if a[0] == "truthy" and a[1] == ("param", "copy_from"):
                return False
            if a[0] == "isinst" and a[1] == ("param", "values_or_dtype"):
                return ("Sequence" in a[2] or "Iterable" in a[2] or "list" in a[2]) and "type" != a[2].split(":")[-1]
            if a[0] in ("eq", "cmp"):
                sides = (a[1], a[2]) if a[0] == "eq" else (a[2], a[3])
                ts = []
                for sd in sides:
                    if sd and sd[0] == "call" and sd[1] == gd.qual and sd[2]:
                        try:
                            ts.append(pytype(value_of(sd[2][0])))
                        except KeyError:
                            return NOTHING
                    else:
                        return NOTHING
                same = ts[0] == ts[1]
                if a[0] == "eq":
                    return same
                return same if a[1] == "==" else (not same) if a[1] == "!=" else NOTHING
            return NOTHING
        te = TermEval(leaf, atomfn=atomfn)
        hit = []
        for p in paths:
            ok = True
            for a, v in p.decisions:
                try:
                    r = te.atom(a)
                except Unknown as e:
                    raise AnalysisError("C10: create_property depends on an unmodelled condition %s (%s)" % (show(a)[:140], e))
                except (TypeError, IndexError, AttributeError, KeyError):
                    ok = False
                    break
                if r != v:
                    ok = False
                    break
            if ok:
                hit.append(p)
        key = "create_property('p', %r)" % (data,)
        if not hit:
            rep.bad(R, key, "no row of create_property's decision table applies to %r" % (data,), site=f.file)
            continue
        created = [p for p in hit if any(e.kind == "ocall" and e.op == cn_.qual for e in p.events)]
        if vs is not None:
            unset = [p for p in created if p.normal and not any(e.kind == "ocall" and e.op == vs.qual for e in p.events)]
            if unset:
                rep.bad(R, key + "/values stored", "create_property returns a property whose values were never assigned",
                        site=f.file + ":%d" % f.node.lineno, detail=describe_path(unset[0], 30))
        refused = [p for p in hit if p.terminal[0] == "raise" and not any(e.kind == "ocall" and e.op == cn_.qual for e in p.events)]
        if want_ok:
            rep.check(R, key, bool(created) and not refused, "a list of one type is refused", site=f.file + ":%d" % f.node.lineno)
        else:
            rep.check(R, key, bool(refused) and not created,
                      "the mixed list %r reaches the creation of the property: the refusal then comes from the value setter, after the "
                      "property exists -- the refused call leaves a property behind" % (data,), site=f.file + ":%d" % f.node.lineno,
                      detail=describe_path(created[0], 30) if created else None)


def create_property_assigns(M, rep, R):
    """every normal path of create_property that creates a property also assigns its values -- unconditionally: a property
    created from a bare DataType is resized from the placeholder extent to empty by that assignment"""
    c3 = Ctx(M, coarse=False)
    c3.cfg.compose = False
    f = c3.member("Section", "create_property")
    cn_ = c3.member("Property", "create_new")
    vs = c3.member("Property", "values", "setters")
    if f is None or cn_ is None or vs is None:
        rep.bad(R, "Section.create_property/assign", "required mechanism not found")
        return
    c3.cfg.opaque[cn_.qual] = ("obj", "Property")
    c3.cfg.opaque[vs.qual] = ("const", None)
    bad = None
    n = 0
    for p in c3.paths(f, "Section", max_paths=40000):
        if not p.normal:
            continue
        cr = [e for e in p.events if e.kind == "ocall" and e.op == cn_.qual]
        if not cr:
            continue
        n += 1
        if not any(e.kind == "ocall" and e.op == vs.qual and e.idx > cr[0].idx for e in p.events):
            bad = p
    rep.check(R, "Section.create_property/assign", bad is None and n > 0,
              "a path creates the property without assigning its values: the placeholder extent the data set was created with stays "
              "(a property created from a DataType alone reads back fill values)", site=f.file + ":%d" % f.node.lineno,
              detail=describe_path(bad, 30) if bad else None)


def run(M, rep, tier, only=None):
    ctx = Ctx(M, coarse=False)
    ctx.cfg.compose = False
    cctx = Ctx(M)
    R1 = rep.rule("C10.R1", "no storage write precedes a type refusal of new property values", floor=2,
                  technique="event order on all abstract paths ending in TypeError/ValueError")
    R2 = rep.rule("C10.R2", "new values are checked against the property's type and element by element", floor=40,
                  technique="guards present on every accepting path")
    R3 = rep.rule("C10.R3", "value type inference table (bool < Integral < Real, str, else refused)", floor=6,
                  technique="decision-table extraction evaluated on representatives of the type lattice")
    R4 = rep.rule("C10.R4", "extend appends behind the old values; assign resizes to the new list; clear resizes to 0", floor=3,
                  technique="arguments and order of the resize/write events on all abstract paths")
    R5 = rep.rule("C10.R5", "Section dictionary protocol delegates to the property / subsection containers", floor=6,
                  technique="storage events / resolved callees on all abstract paths")
    R6 = rep.rule("C10.R6", "a section keeps no per-handle property table", floor=1, technique="stateless-handle classification (see C02.R7)")

    # ---------------------------------------------------------------- R1
    for cn, name, tb in (("Property", "values", "setters"), ("Property", "extend_values", "methods")):
        f = cctx.member(cn, name, tb)
        key = "%s.%s%s" % (cn, name, "@set" if tb == "setters" else "")
        if f is None:
            rep.bad(R1, key, "required mechanism not found")
            continue
        try:
            paths = cctx.paths(f, cn, max_paths=30000)
        except Budget:
            raise AnalysisError("C10: too many abstract paths in %s" % key)
        nref = 0
        ok_inst = True
        for p in paths:
            if p.terminal[0] != "raise" or p.terminal[1].cls not in ("TypeError", "ValueError"):
                continue
            x = p.terminal[1]
            if not x.explicit:
                continue
            nref += 1
            ws = [e for e in p.events if cctx.fx.is_observable_write(e) and e.idx < x.nevents]
            if ws:
                w = ws[0]
                ident = "%s | %s:%s | %s:%s" % (key, (w.func or "?").split(":")[-1], cctx.fx.member(w), (x.func or "?").split(":")[-1], x.cls)
                rep.bad(R1, ident, "%s: storage is written (%s at %s) before the values are refused with %s (%s): the refused call "
                        "changes the stored values" % (key, w.op, w.site, x.cls, x.site), site=x.site, detail=describe_path(p, 40))
                ok_inst = False
        if ok_inst:
            rep.check(R1, key, nref > 0, "%s never refuses values of a wrong type" % key, site=f.file + ":%d" % f.node.lineno,
                      what="%d refusing paths, none after a write" % nref)

    # ---------------------------------------------------------------- R2
    f = type_check_fn(ctx)
    if f is None:
        rep.bad(R2, "Property._check_new_value_types", "required mechanism not found")
    else:
        paths = ctx.paths(f, "Property")
        bad = None
        nacc = 0
        raises = {(p.terminal[1].func or "").split(".")[-1] for p in paths if p.terminal[0] == "raise"}
        for p in paths:
            if not p.normal:
                continue
            arr = [v for a, v in p.decisions if a[0] == "truthy" and a[1][0] == "hasattr" and a[1][2] == "dtype"]
            has_prop = any(a[0] == "eq" and any(x and x[0] == "lres" and x[1] == "dtype" for x in subterms(a)) for a, v in p.decisions)
            elem = any(any(x and x[0] == "elem" for x in subterms(a)) for a, v in p.decisions if a[0] != "iter") or \
                any(a[0] == "iter" and v is False for a, v in p.decisions)
            if not has_prop:
                bad = (p, "new values are accepted without comparing their type with the property's stored type")
                break
            # the type that is compared with the stored one is the values' OWN type: an accepting path on which the values' type
            # was found to differ (and was then replaced by something derived from the property) converts instead of refusing
            def _is_prop(t):
                return any(x and x[0] == "lres" and x[1] == "dtype" for x in subterms(t))

            def _own(t):
                return not any(x and (x[0] == "lres" or x == ("self",)) for x in subterms(t))
            cmp_ = [(a, v) for a, v in p.decisions if a[0] == "eq" and len(a) == 3 and
                    ((_is_prop(a[1]) and _own(a[2])) or (_is_prop(a[2]) and _own(a[1])))]
            if any(v is False for a, v in cmp_):
                bad = (p, "values whose own type was found to differ from the property's stored type are accepted (converted) instead of "
                       "being refused with TypeError")
                break
            if not any(v is True for a, v in cmp_):
                bad = (p, "on an accepting path the type compared with the property's stored type is not the new values' own type")
                break
            single = any(a[0] == "isinst" and a[1] == ("param", "data") and "py:str" in a[2] and v is True for a, v in p.decisions) or \
                any(a[0] == "isinst" and a[1] == ("param", "data") and "Iterable" in a[2] and v is False for a, v in p.decisions)
            if arr and arr[0] is False and not single:
                nacc += 1
                if not elem:
                    bad = (p, "a list of new values is accepted without checking every element's type")
                    break
        rep.check(R2, "Property._check_new_value_types", bad is None and nacc > 0, bad[1] if bad else "no accepting list path",
                  site=f.file + ":%d" % f.node.lineno, detail=describe_path(bad[0]) if bad else None)

    # ---- R2b: the type check as a decision table (two unrolled elements), evaluated on value lists
    f = type_check_fn(ctx)
    if f is not None:
        import numpy as _np_absent  # noqa: F401  (only to make clear nothing of numpy is needed here)
    if f is not None:
        c2 = Ctx(M, coarse=False, unroll=2)
        c2.cfg.compose = False
        c2.cfg.unroll_comps = True
        try:
            paths2 = c2.paths(f, "Property", max_paths=40000)
        except Budget:
            raise AnalysisError("C10: too many abstract paths in _check_new_value_types (unroll 2)")
        DT = {"Bool": ("ext", "numpy.bool_"), "Int64": ("ext", "numpy.int64"), "Double": ("ext", "numpy.double"), "String": ("ext", "numpy.str_")}
        dtc = M.classes.get("DataType")
        for nm in list(DT):
            # the value the analyser resolves DataType.<nm> to (String is assigned under a NumPy-version test: either branch is fine)
            e = dtc.attrs.get(nm) if dtc else None
            if isinstance(e, ast.Attribute) and isinstance(e.value, ast.Name):
                DT[nm] = ("ext", "numpy." + e.attr)

        def pytype(v):
            if isinstance(v, bool):
                return "Bool"
            if isinstance(v, int):
                return "Int64"
            if isinstance(v, float):
                return "Double"
            if isinstance(v, str):
                return "String"
            return None
        cases = []
        for stored in ("Bool", "Int64", "Double", "String"):
            for data in ([1, 2], [1, True], [True, 1], [1.5, 2], [2, 1.5], [1.5, True], [True, 1.5], ["a", "b"], ["a", 1], [1, "a"],
                         [1.5, 2.5], [True, False], [7], [7.5], [True], ["x"]):
                cases.append((stored, data))
        for stored, data in cases:
            types = [pytype(x) for x in data]
            want_ok = all(t == stored for t in types)
            loops = sorted({a[1] for p in paths2 for a, v in p.decisions if a[0] == "iter"}, key=str)

            def leaf(t, data=data, stored=stored):
                if t == ("param", "data"):
                    return data
                if t[0] == "lres" and t[1] == "dtype":
                    return DT[stored]
                if t[0] == "ext":
                    return t
                if t[0] == "elem" and t[1] == ("param", "data"):
                    return data[t[2]] if t[2] < len(data) else NOTHING
                if t[0] == "hasattr":
                    return False
                return NOTHING

            def atomfn(a, data=data):
                if a[0] == "iter":
                    return a[2] < len(data)
                if a[0] == "truthy" and a[1][0] == "hasattr":
                    return False
                return NOTHING
            te = TermEval(leaf, atomfn=atomfn)
            hit = []
            for p in paths2:
                ok = True
                for a, v in p.decisions:
                    try:
                        r = te.atom(a)
                    except Unknown as e:
                        raise AnalysisError("C10.R2: the value type check depends on an unmodelled condition %s (%s)" % (show(a)[:140], e))
                    except (TypeError, IndexError, AttributeError):
                        ok = False
                        break
                    if r != v:
                        ok = False
                        break
                if ok:
                    hit.append(p)
            key = "values %r into a %s property" % (data, stored)
            if len(hit) != 1:
                rep.bad(R2, key, "%d rows of the decision table apply" % len(hit), site=f.file)
                continue
            p = hit[0]
            got_ok = p.terminal[0] == "return"
            rep.check(R2, key, got_ok == want_ok, "%s are %s; the statement requires them to be %s (one data type per property, mixed lists refused)" % (
                key, "accepted" if got_ok else "refused with %s" % p.terminal[1].cls, "accepted" if want_ok else "refused"),
                site=f.file + ":%d" % f.node.lineno, detail=describe_path(p) if got_ok != want_ok else None)

    # ---------------------------------------------------------------- R3
    dt = M.classes.get("DataType")
    g = dt.methods.get("get_dtype") if dt else None
    if g is None:
        rep.bad(R3, "DataType.get_dtype", "required mechanism not found")
    else:
        paths = explore(ctx.cfg, g, "DataType", None, 2000)
        reps = [(True, "Bool"), (False, "Bool"), (1, "Int64"), (0, "Int64"), (-5, "Int64"), (2 ** 40, "Int64"), (1.5, "Double"),
                (0.0, "Double"), (float("nan"), "Double"), ("s", "String"), ("", "String"), (None, None), (b"x", None),
                ([1], None), (1 + 2j, None)]
        for val, want in reps:
            te = TermEval(lambda t, val=val: val if t == ("param", "value") else NOTHING)
            hit = []
            for p in paths:
                ok = True
                for a, v in p.decisions:
                    try:
                        if te.atom(a) != v:
                            ok = False
                            break
                    except Unknown as e:
                        raise AnalysisError("C10.R3: get_dtype depends on an unmodelled condition %s (%s)" % (show(a), e))
                if ok:
                    hit.append(p)
            key = "get_dtype(%r)" % (val,)
            if len(hit) != 1:
                rep.bad(R3, key, "%d rows of the decision table apply" % len(hit), site=g.file)
                continue
            p = hit[0]
            if p.terminal[0] == "raise":
                got = None
                okc = want is None and p.terminal[1].cls == "ValueError"
            else:
                got = show(p.terminal[1].t)
                np_names = {"Bool": {"bool_", "bool"}, "Int64": {"int64"}, "Double": {"double", "float64"},
                            "String": {"str_", "unicode_"}}
                okc = want is not None and got.split(".")[-1].rstrip("')") in (np_names[want] | {want})
            rep.check(R3, key, okc, "a value %r is typed as %s; required %s" % (val, got or "refused (%s)" % p.terminal[1].cls if p.terminal[0] == "raise" else got,
                                                                              want or "a ValueError"), site=g.file + ":%d" % g.node.lineno,
                      detail=describe_path(p) if not okc else None)

    # ---------------------------------------------------------------- R4
    f = ctx.member("Property", "extend_values")
    if f is not None:
        bad = None
        n = 0
        for p in ctx.paths(f, "Property"):
            if not p.normal:
                continue
            rs = [e for e in p.events if e.kind == "layer" and e.op == "H5DataSet.shape@set" and e.recv.t == DS]
            ws = [e for e in p.events if e.kind == "layer" and e.op == "H5DataSet.write_data" and e.recv.t == DS]
            if len(rs) != 1 or len(ws) != 1:
                bad = (p, "extend must resize once and write once (resizes=%d, writes=%d)" % (len(rs), len(ws)))
                break
            n += 1
            r, w = rs[0], ws[0]
            if r.idx > w.idx:
                bad = (p, "the new values are written before the dataset is enlarged")
                break
            newshape = r.args[0].t if r.args else None
            slc = w.kw.get("slc") or w.kw.get("sl")
            ok_shape = newshape is not None and newshape[0] == "tuple" and len(newshape[1]) == 1 and newshape[1][0][0] == "bin" \
                and newshape[1][0][1] == "+"
            if not ok_shape:
                bad = (p, "the new extent is %s, not old length + number of new values" % (show(newshape) if newshape else None))
                break
            a, b = newshape[1][0][2], newshape[1][0][3]
            if slc is None or slc.t[0] not in ("slice", "sub"):
                bad = (p, "the new values are not written into a region behind the old ones (%s)" % (show(slc.t) if slc else None))
                break
            st = slc.t
            if st[0] == "sub":
                st = st[2]
            if st[0] != "slice" or st[1] not in (a, b) or st[2] != newshape[1][0]:
                bad = (p, "the new values are written to %s; required [old length : old length + new]" % show(st))
                break
            old = st[1]
            if old != ("const", 0) and "values" not in show(old) and "len" not in show(old) and "shape" not in show(old):
                bad = (p, "the write offset %s is not the number of values stored so far" % show(old))
                break
        rep.check(R4, "Property.extend_values", bad is None and n > 0, bad[1] if bad else "no normal path", site=f.file + ":%d" % f.node.lineno,
                  detail=describe_path(bad[0]) if bad else None)
    else:
        rep.bad(R4, "Property.extend_values", "required mechanism not found")
    f = ctx.member("Property", "values", "setters")
    if f is not None:
        bad = None
        n = 0
        for p in ctx.paths(f, "Property"):
            if not p.normal:
                continue
            rs = [e for e in p.events if e.kind == "layer" and e.op == "H5DataSet.shape@set" and e.recv.t == DS]
            ws = [e for e in p.events if e.kind == "layer" and e.op == "H5DataSet.write_data" and e.recv.t == DS]
            if not ws:
                if not rs or rs[-1].args[0].t != ("tuple", (("const", 0),)):
                    bad = (p, "an empty assignment does not clear the values")
                continue
            n += 1
            if not rs or rs[-1].idx > ws[0].idx:
                bad = (p, "the values are written without first resizing the dataset to the new list (a stale tail or a failed write)")
                break
            sh = show(rs[-1].args[0].t)
            if "vals" not in sh or not ("shape" in sh or "len" in sh):
                bad = (p, "the dataset is resized to %s, not to the shape of the new values" % sh)
                break
            if w_slc(ws[0]):
                bad = (p, "the new values are written into a sub-region only")
                break
        rep.check(R4, "Property.values@set", bad is None and n > 0, bad[1] if bad else "no writing path", site=f.file + ":%d" % f.node.lineno,
                  detail=describe_path(bad[0]) if bad else None)
    f = ctx.member("Property", "delete_values")
    if f is not None:
        ok = False
        for p in ctx.paths(f, "Property"):
            rs = [e for e in p.events if e.kind == "layer" and e.op == "H5DataSet.shape@set"]
            ok = bool(rs) and rs[-1].args[0].t == ("tuple", (("const", 0),))
        rep.check(R4, "Property.delete_values", ok, "delete_values does not resize the dataset to 0", site=f.file + ":%d" % f.node.lineno)

    # ---------------------------------------------------------------- R5
    PROPS = ("lres", "open_group", ("attr", ("self",), "_h5group"), (("const", "properties"),))
    SECS = ("lres", "open_group", ("attr", ("self",), "_h5group"), (("const", "sections"),))

    def grp_events(p):
        out = []
        for e in p.events:
            if e.kind == "layer" and e.recv is not None:
                if e.recv.t == PROPS or any(x == PROPS for x in subterms(e.recv.t)):
                    out.append(("props", e))
                elif e.recv.t == SECS or any(x == SECS for x in subterms(e.recv.t)):
                    out.append(("sections", e))
        return out
    sec = M.classes.get("Section")
    table = {"__len__": "len of the property list", "__delitem__": "delete from the property list", "__contains__": "props or sections",
             "items": "props then sections", "__getitem__": "property values, else subsection", "__setitem__": "create or assign"}
    for name in table:
        f = ctx.member("Section", name)
        key = "Section." + name
        if f is None:
            rep.bad(R5, key, "required mechanism not found")
            continue
        try:
            paths = (cctx if name == "__setitem__" else ctx).paths(f, "Section", max_paths=30000)
        except Budget:
            raise AnalysisError("C10: too many abstract paths in %s" % key)
        bad = None
        if name == "__len__":
            for p in paths:
                ge = grp_events(p)
                if p.normal and not (any(k == "props" and e.op.endswith("__len__") for k, e in ge) and not any(k == "sections" for k, e in ge)):
                    bad = (p, "len(section) is not the number of its properties")
        elif name == "__delitem__":
            for p in paths:
                if p.normal and not any(e.kind == "layer" and e.op.endswith("delete_all") for e in p.events):
                    bad = (p, "del section[key] deletes nothing")
                ge = grp_events(p)
                if any(k == "sections" for k, e in ge):
                    bad = (p, "del section[key] looks the key up among the subsections")
        elif name == "__contains__":
            sawp = saws = False
            for p in paths:
                ge = grp_events(p)
                sawp = sawp or any(k == "props" for k, e in ge)
                saws = saws or any(k == "sections" for k, e in ge)
            if not (sawp and saws):
                bad = (paths[0], "membership does not consult both the properties and the subsections")
        elif name == "items":
            for p in paths:
                ge = grp_events(p)
                fp = [e.idx for k, e in ge if k == "props"]
                fs = [e.idx for k, e in ge if k == "sections"]
                if p.normal and (not fp or not fs or min(fp) > min(fs)):
                    bad = (p, "iteration does not yield the properties first and the subsections after them")
        elif name == "__getitem__":
            sawv = False
            for p in paths:
                if p.normal and any(y == PROPS for y in subterms(p.terminal[1].t)) and any(
                        "read_data" in e.op or e.op.endswith("ds.__getitem__") or e.op.endswith("obj.__getitem__") for e in p.events):
                    sawv = True
                if p.normal and (any(e.kind == "layer" and e.op == "H5DataSet.read_data" for e in p.events) or any(
                        x and x[0] == "attr" and x[2] == "values" and any(y == PROPS for y in subterms(x)) for x in subterms(p.terminal[1].t))):
                    sawv = True
            if not sawv:
                bad = (paths[0], "section[key] never reads the values of a property")
            # a subsection is returned only after the properties were consulted and did not have the key
            for p in paths:
                if not p.normal:
                    continue
                rv = p.terminal[1].t
                prov = [rv] + [p.heap[(x, "_h5group")].t for x in subterms(rv) if x and x[0] == "inst" and (x, "_h5group") in p.heap]
                from_props = any(y == PROPS for t_ in prov for y in subterms(t_))
                from_secs = any(y == SECS for t_ in prov for y in subterms(t_))
                if from_secs and not from_props:
                    consulted = [e for k, e in grp_events(p) if k == "props"]
                    said_yes = [v for a, v in p.decisions if a[0] == "truthy" and a[1][0] == "rd" and a[1][1] == "child" and a[1][2] == PROPS and v is True]
                    if not consulted or said_yes:
                        bad = (p, "section[key] returns the subsection of that name %s: lookup disagrees with assignment, deletion, "
                               "membership and len, which go to the property first" % (
                                   "although a property has the key" if said_yes else "without asking whether a property has the key"))
            # a key that names a property yields the property's values -- also when a subsection has the same name
            for p in paths:
                if not p.normal:
                    continue
                inprops = [v for a, v in p.decisions if a[0] == "truthy" and a[1][0] == "rd" and a[1][1] == "child" and a[1][2] == PROPS
                           and a[1][3] == ("param", "key")]
                if inprops and inprops[0] is True:
                    rv = p.terminal[1].t
                    if any(x == SECS for x in subterms(rv)) and not any(x == PROPS for x in subterms(rv)):
                        bad = (p, "for a key that names a property, section[key] returns the subsection of that name: lookup and "
                               "assignment/deletion/len disagree")
        elif name == "__setitem__":
            sawc = sawa = False
            for p in paths:
                names = {e.op for e in p.events if e.kind in ("ocall", "ucall", "rcall")} | {q.split(":")[-1] for e in p.events for q in e.stack}
                txt = " ".join(sorted(names)) + " ".join(show(a) for a, v in p.decisions)
                if "create_property" in txt:
                    sawc = True
                if ("Property.values@set" in txt or "values@set" in txt) and "create_property" not in txt:
                    sawa = True         # assignment to the existing property, not the initial assignment inside a creation
                dels = [e for e in p.events if e.kind == "layer" and e.op.split(".")[-1] in ("delete", "delete_all", "__delitem__")]
                if dels:
                    bad = (p, "assigning to section[key] deletes something (%s): the existing property -- with its unit, definition, "
                              "uncertainty and id -- is thrown away instead of being assigned to, and a refused assignment leaves "
                              "nothing behind" % dels[0].op)
            if bad is None and not (sawc and sawa):
                bad = (paths[0], "assignment does not create a missing property / assign to an existing one (create=%s, assign=%s)" % (sawc, sawa))
        rep.check(R5, key, bad is None, bad[1] if bad else "", site=f.file + ":%d" % f.node.lineno,
                  detail=describe_path(bad[0]) if bad else None, what=table[name])

    # ---------------------------------------------------------------- R6
    n = stateless.run(M, rep, R6, only_classes={"Section", "Property"})
    if not n:
        rep.bad(R6, "Section/Property", "required mechanism not found: no handle caches at all")


    R7 = rep.rule("C10.R7", "create_property: a list of one type is created, a mixed list is refused before anything is created", floor=8,
                  technique="decision-table extraction (two unrolled elements) evaluated on value lists")
    create_property_table(M, rep, R7)
    create_property_assigns(M, rep, R7)


def w_slc(e):
    s = e.kw.get("slc") or e.kw.get("sl")
    return s is not None and not (is_const(s) and s.t[1] is None)
