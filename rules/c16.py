# -*- coding: utf-8 -*-
"""
C16 -- data frames. Decided statically:
 R1  external linkage: every numpy/h5py attribute the package uses exists in the installed library (np.string_ did not)
 R2  the duplicate-name check precedes the creation of a data frame (shared with C03.R1)
 R3  parameters that are row/column indices or names are tested for None by identity, never by truthiness (0 is a
     legal index, "" a legal name)
 R4  no storage write precedes an argument refusal in the writing members
 R5  only the hdf5 layer creates HDF5 objects: entity code never creates datasets/links through the raw h5py handle
     (a raw creation bypasses the layer's invariants: chunked, resizable)
 R6  pass-through: write_rows writes the given rows at the given indices in the given order (neither side is
     transformed alone); write_cell reads and writes back the same row; write_column writes row i at index i
 R7  schema accessors derive from the stored compound type of "data"
 R8  data-frame reads keep no look-aside tables (shared stateless-handle rule)
"""
from .common import Ctx, surface, api_key, describe_path
from nixsa.px_core import Budget
from nixsa.model import AnalysisError
from nixsa.values import show, is_const, subterms, params_of, vsymbols
from nixsa import extapi
from . import stateless

INDEX_PARAMS = {"index", "name", "position", "col_name", "row_idx", "slc", "sl", "col_idx"}
WRITERS = ["append_column", "append_rows", "write_column", "write_rows", "write_cell"]
READERS = ["read_columns", "read_rows", "read_cell"]


def run(M, rep, tier, only=None):
    ctx = Ctx(M)
    nctx = Ctx(M, coarse=False)
    nctx.cfg.compose = False
    R1 = rep.rule("C16.R1", "every numpy / h5py attribute used exists in the installed library", floor=40,
                  technique="attribute chains collected from the AST, existence probed in the repository's interpreter")
    R2 = rep.rule("C16.R2", "duplicate-name check precedes data-frame creation", floor=1, technique="must-precede on all abstract paths")
    R3 = rep.rule("C16.R3", "index / name parameters are tested for None by identity", floor=6,
                  technique="decision atoms on the parameter on all abstract paths")
    R4 = rep.rule("C16.R4", "no write precedes an argument refusal in the data-frame writers", floor=4,
                  technique="event order on all abstract paths ending in an explicit refusal")
    R5 = rep.rule("C16.R5", "only the hdf5 layer creates HDF5 objects", floor=1, technique="raw h5py creation events outside the layer (resolved call graph)")
    R6 = rep.rule("C16.R6", "rows, indices and cells are passed through unpermuted", floor=3,
                  technique="argument provenance of the storage write on all abstract paths")
    R7 = rep.rule("C16.R7", "schema accessors derive from the stored compound type", floor=3, technique="returned-term provenance")
    R8 = rep.rule("C16.R8", "no look-aside tables in the data-frame read path", floor=1, technique="stateless-handle classification (see C02.R7)")

    # ---------------------------------------------------------------- R1
    ch = extapi.chains(M)
    res = extapi.probe([k for k, sites in ch.items() if not all(g for _, _, g in sites)])
    nguard = 0
    for (root, chain), sites in sorted(ch.items()):
        key = "%s.%s" % (root, chain)
        if all(g for _, _, g in sites):
            nguard += 1
            continue
        r = res.get(root + "|" + chain)
        site = ["%s:%d" % (f, l) for f, l, g in sites if not g][0]
        rep.check(R1, key, r == "ok", "%s is used (%s, %d site(s)) but the installed %s does not provide it (%s): every call "
                  "reaching it fails with AttributeError" % (key, site, len(sites), root.split(".")[0], r), site=site)
    rep.stats["ext_chains"] = len(ch)
    rep.stats["ext_guarded"] = nguard

    # ---------------------------------------------------------------- R2
    from .c03 import creation_targets, same_group
    f = ctx.member("Block", "create_data_frame")
    if f is None:
        rep.bad(R2, "Block.create_data_frame", "required mechanism not found")
    else:
        bad = None
        n = 0
        for p in ctx.paths(f, "Block"):
            for e, grp, nm, kind in creation_targets(ctx, p):
                if kind != "create":
                    continue
                n += 1
                found = any(c.kind == "layer" and c.op == "H5Group.__contains__" and c.idx < e.idx and c.key is not None
                            and c.key.t == nm and same_group(c.recv.t, grp) for c in p.events)
                if not found:
                    bad = (p, e)
        rep.check(R2, "Block.create_data_frame", bad is None and n > 0, "a data frame is created without a duplicate-name test on its group",
                  site=bad[1].site if bad else f.file, detail=describe_path(bad[0]) if bad else None)

    # ---------------------------------------------------------------- R3 / R4 / R6
    df = M.classes.get("DataFrame")
    for name in WRITERS + READERS:
        f = nctx.member("DataFrame", name)
        key = "DataFrame." + name
        if f is None:
            rep.bad(R3, key, "required mechanism not found")
            continue
        try:
            paths = nctx.paths(f, "DataFrame", max_paths=30000)
        except Budget:
            raise AnalysisError("C16: too many abstract paths in %s" % key)
        idxp = [p_ for p_ in f.params[1:] if p_ in INDEX_PARAMS]
        if idxp:
            bad = None
            for p in paths:
                for a, v in p.decisions:
                    if a[0] == "truthy":
                        t = a[1]
                        if t[0] == "not":
                            t = t[1]
                        if t[0] == "param" and t[1] in idxp:
                            bad = (p, t[1])
            rep.check(R3, key, bad is None, "%s tests its parameter `%s` by truthiness: index 0 / an empty name is taken for 'not given'" % (
                key, bad[1] if bad else ""), site=f.file + ":%d" % f.node.lineno, detail=describe_path(bad[0]) if bad else None,
                what="parameters %s compared with None only" % idxp)
        if name in WRITERS:
            bad = None
            nref = 0
            for p in paths:
                if p.terminal[0] != "raise" or not p.terminal[1].explicit:
                    continue
                x = p.terminal[1]
                nref += 1
                ws = [e for e in p.events if nctx.fx.is_observable_write(e) and e.idx < x.nevents]
                if ws:
                    bad = (p, ws[0], x)
            rep.check(R4, key, bad is None, "%s writes (%s) before it refuses the call with %s" % (
                key, bad[1].op if bad else "", bad[2].cls if bad else ""), site=bad[2].site if bad else None,
                detail=describe_path(bad[0]) if bad else None, what="%d refusing paths" % nref)
        # ---- R6
        if name == "write_rows":
            bad = None
            n = 0
            for p in paths:
                if not p.normal:
                    continue
                ws = [e for e in p.events if e.kind == "layer" and e.op == "H5DataSet.write_data"]
                for e in ws:
                    n += 1
                    slc = e.kw.get("slc") or e.kw.get("sl")
                    dat = e.kw.get("data") or (e.args[0] if e.args else None)
                    if slc is None or slc.t != ("param", "index"):
                        bad = (p, "the rows are written at %s, not at the given indices as given (a transformed index list no longer "
                               "corresponds to the order of the rows)" % (show(slc.t) if slc is not None else None))
                    elif dat is not None and dat.t == ("list", ()) and any(a[0] == "iter" and v is False for a, v in p.decisions):
                        pass        # zero rows: the loop over the rows did not run
                    elif dat is None or "rows" not in params_of(dat.t) or any(
                            x and x[0] == "call" and str(x[1]) in ("sorted", "reversed") for x in subterms(dat.t)):
                        bad = (p, "the written data %s is not the given rows in the given order" % (show(dat.t)[:80] if dat is not None else None))
            rep.check(R6, key, bad is None and n > 0, bad[1] if bad else "write_rows never writes", site=f.file + ":%d" % f.node.lineno,
                      detail=describe_path(bad[0]) if bad else None)
        if name == "write_cell":
            bad = None
            n = 0
            for p in paths:
                if not p.normal:
                    continue
                ws = [e for e in p.events if e.kind == "layer" and e.op == "H5DataSet.write_data"]
                rs = [e for e in p.events if e.kind == "layer" and e.op == "H5DataSet.read_data"]
                for e in ws:
                    n += 1
                    slc = e.kw.get("slc") or e.kw.get("sl")
                    rsl = [(r.kw.get("slc") or r.kw.get("sl")) for r in rs if r.idx < e.idx]
                    rsl = [x for x in rsl if x is not None]
                    if slc is None or not rsl or rsl[-1].t != slc.t:
                        bad = (p, "the row that is written back (%s) is not the row that was read (%s)" % (
                            show(slc.t) if slc is not None else None, show(rsl[-1].t) if rsl else None))
            rep.check(R6, key, bad is None and n > 0, bad[1] if bad else "write_cell never writes", site=f.file + ":%d" % f.node.lineno,
                      detail=describe_path(bad[0]) if bad else None)
        if name == "write_column":
            bad = None
            n = 0
            for p in paths:
                if not p.normal:
                    continue
                for e in p.events:
                    if e.kind == "layer" and e.op == "H5DataSet.write_data":
                        n += 1
                        slc = e.kw.get("slc") or e.kw.get("sl")
                        s = show(slc.t) if slc is not None else ""
                        if "idx(" not in s and "elem(" not in s:
                            bad = (p, "write_column does not write row i at index i (%s)" % s)
            rep.check(R6, key, bad is None and n > 0, bad[1] if bad else "write_column never writes", site=f.file + ":%d" % f.node.lineno,
                      detail=describe_path(bad[0]) if bad else None)

    # ---------------------------------------------------------------- R9: text columns of append_column
    R9 = rep.rule("C16.R9", "an appended text column is stored as variable-length text, whether its type was given or inferred", floor=1,
                  technique="guard presence / argument value on all abstract paths")
    f = nctx.member("DataFrame", "append_column")
    if f is None:
        rep.bad(R9, "DataFrame.append_column", "required mechanism not found")
    else:
        bad = None
        ninf = 0
        for p in nctx.paths(f, "DataFrame", max_paths=30000):
            crea = [e for e in p.events if e.kind == "layer" and e.op == "H5Group.create_dataset"]
            if not crea:
                continue
            inferred = any(a == ("isnone", ("param", "datatype")) and v is True for a, v in p.decisions)
            sub = [(a, v) for a, v in p.decisions if a[0] == "truthy" and a[1][0] == "call" and a[1][1] == "issubclass"]
            arr = [e for e in p.events if e.kind == "ext" and e.op in ("numpy.array", "numpy.asarray") and e.kw.get("dtype") is not None]
            used = arr[-1].kw["dtype"].t if arr else None
            if inferred:
                ninf += 1
                tests = sub + [(a, v) for a, v in p.decisions if a[0] == "truthy" and a[1][0] == "call" and str(a[1][1]).endswith("isclass")]
                on_inferred = [(a, v) for a, v in tests if a[1][2] and a[1][2][0] != ("param", "datatype") and a[1][2][0] != ("const", None)]
                if not on_inferred:
                    bad = (p, "when the column type is inferred from the values it is never tested for being text: a text column is created "
                           "with a fixed-width NumPy string type that HDF5 cannot store (after the old table was already deleted)")
                    break
            text = [v for a, v in sub if v is True]
            if text and used is not None and not ("vlen" in show(used) or "string_dtype" in show(used)):
                bad = (p, "a text column is created with type %s instead of the variable-length text type" % show(used)[:60])
                break
        rep.check(R9, "DataFrame.append_column", bad is None and ninf > 0, bad[1] if bad else "no path infers the column type",
                  site=f.file + ":%d" % f.node.lineno, detail=describe_path(bad[0], 30) if bad else None)

    # ---------------------------------------------------------------- R5
    cg = ctx.cg
    nraw = 0
    for q, ops in sorted(cg.ops.items()):
        short = q.split(":")[-1]
        if q.startswith("nixio.cmd.") or short.split(".")[0] in ("H5Group", "H5DataSet") or q.startswith("nixio.hdf5."):
            continue
        for o in ops:
            if o[0] != "raw":
                continue
            m = o[1].split(".")[-1]
            if (o[1].split(".")[0] in ("grp", "obj", "file") and m in ("__setitem__", "create_dataset", "require_dataset", "create_group",
                                                                      "require_group", "copy", "move")) or o[1] in ("h5py.h5g.create",):
                nraw += 1
                rep.bad(R5, "%s/%s" % (short, o[1]), "%s creates an HDF5 object through the raw h5py handle (%s): the hdf5 layer's "
                        "creation invariants (chunked, resizable, creation order) do not hold for it" % (short, o[1]))
    if not nraw:
        rep.ok(R5, "entity code", "no raw h5py creation outside nixio.hdf5")

    # ---------------------------------------------------------------- R7
    for attr in ("column_names", "dtype", "df_shape"):
        g = nctx.member("DataFrame", attr, "getters")
        key = "DataFrame." + attr
        if g is None:
            rep.bad(R7, key, "required mechanism not found")
            continue
        ok = False
        for p in nctx.paths(g, "DataFrame"):
            if p.normal and any(e.kind in ("layer", "raw") and ("data" == nctx.fx.key(e) or "dtype" in e.op or "shape" in e.op) for e in p.events):
                ok = True
        rep.check(R7, key, ok, "%s does not derive from the stored data set" % key, site=g.file + ":%d" % g.node.lineno)

    # ---------------------------------------------------------------- R8
    n = stateless.run(M, rep, R8, only_classes={"DataFrame", "H5DataSet"}, only_modules={"nixio.hdf5.h5dataset", "nixio.data_frame"})
    R11 = rep.rule("C16.R11", "column types inferred from the first row are the cells' own types (no widening value-class inference)", floor=1,
                   technique="terms collected into the column-type list on all abstract paths of create_data_frame")
    c11_ = Ctx(M, coarse=False)
    c11_.cfg.compose = False
    f11 = c11_.member("Block", "create_data_frame")
    if f11 is None:
        rep.bad(R11, "Block.create_data_frame", "required mechanism not found")
    else:
        bad11 = None
        n11 = 0
        for p in c11_.paths(f11, "Block", max_paths=60000):
            for e in p.events:
                if e.kind == "local" and e.op in ("list.append", "list.extend") and e.args:
                    a = e.args[0].t
                    cell = any(x and x[0] == "elem" and "data" in params_of(x) for x in subterms(a))
                    if not cell:
                        continue
                    n11 += 1
                    if not (a[0] == "call" and a[1] == "type"):
                        bad11 = (p, show(a)[:120])
        badn = None
        nn = 0
        for p in c11_.paths(f11, "Block", max_paths=60000):
            for e in p.events:
                if e.kind == "local" and e.op == "setitem" and e.args and e.func == f11.qual and \
                        any(x and x[0] == "elem" for x in subterms(e.key.t if e.key is not None else ())):
                    nn += 1
                    txt = show(e.args[0].t)
                    if "string_dtype" not in txt and "vlen_str" not in txt:
                        badn = (p, txt[:100])
        rep.check(R11, "Block.create_data_frame/type normalisation", badn is None,
                  "a column type is rewritten to %s: the only normalisation the statement allows is text -> variable-length text; "
                  "any other rewrite changes the type a column reports and stores (bool is a subclass of int!)" % (badn[1] if badn else ""),
                  site=f11.file + ":%d" % f11.node.lineno, detail=describe_path(badn[0], 30) if badn else None)
        rep.check(R11, "Block.create_data_frame/inferred column types", bad11 is None and n11 > 0,
                  "the type of a column inferred from the first row is %s, not the cell's own type: integer widths, signedness and float32 "
                  "are replaced by the value class's default type" % (bad11[1] if bad11 else "never taken from the cells"),
                  site=f11.file + ":%d" % f11.node.lineno, detail=describe_path(bad11[0], 30) if bad11 else None)
    R10 = rep.rule("C16.R10", "a write addressed to row 0 is a row write: the hdf5 layer decides 'no region given' by identity with None",
                   floor=2, technique="decision atoms on the region parameter of H5DataSet.read_data/write_data (shared with C06.R1)")
    from . import c06
    c06.layer_region_rule(M, rep, R10)
    if not n:
        rep.ok(R8, "DataFrame/H5DataSet", "no instance attribute or module table is written outside the constructors")
