# -*- coding: utf-8 -*-
"""
C12 -- a refused operation leaves the file as it was. Decided statically:
 R1  for every public creating/mutating API member, on no abstract path (through resolved callees) does an
     observable storage write precede a refusal (explicit raise, or failed enum conversion) whose guard
     depends on the call's arguments. Every (API, first write, refusal) triple of today's tree is triaged in
     triage/c12.json (infeasible / rolled back, with the reason) or is a recorded defect (known_findings.json).
 R2  the inventory of argument refusals that happen *before* any write does not shrink below the confirmed one
     (triage/c12_inventory.json): a deleted validation cannot be seen by R1.
 R3  create_multi_tag's rollback handler deletes exactly the arrays it created and re-raises.
"""
import ast
import json
import os
import re
from .common import Ctx, surface, api_key, describe_path, ENTITY_CLASSES, CONTAINER_CLASSES
from nixsa.model import AnalysisError
from nixsa.values import show, vsymbols, is_const
from nixsa.px_core import Budget

HERE = os.path.dirname(os.path.dirname(os.path.abspath(__file__)))
TRIAGE = os.path.join(HERE, "triage", "c12.json")
INVENTORY = os.path.join(HERE, "triage", "c12_inventory.json")
ROOT_CLASSES = ENTITY_CLASSES + CONTAINER_CLASSES + ["DataView"]


def public_root(name):
    if name in ("__setitem__", "__delitem__"):
        return True
    return not name.startswith("_") and name not in ("create_new", "open")


def short(q):
    return (q or "?").split(":")[-1]


def refusal_key(func, cls, explicit=True):
    """findings are keyed by the exception class only: the raise may sit in the public member or in any private helper,
    and moving it (extracting / inlining / renaming a helper) does not change behaviour"""
    return "%s%s" % (cls, "" if explicit else ":implicit")


def write_key(op, key):
    return "%s:%s" % (op, key)


def inner_params(x):
    """parameters the innermost controlling condition of a raise depends on (explicitly or implicitly)"""
    conds = getattr(x, "ctrl_conds", ())
    for c, pol in reversed(conds):
        if c.t and c.t[0] in ("iter", "handler"):
            continue
        return {s[1] for s in vsymbols(c) if s[0] == "param"}, c
    return set(), None


def triples(ctx, cn, name, tb, f, paths):
    out = {}
    pre = {}
    for p in paths:
        if p.terminal[0] != "raise":
            continue
        x = p.terminal[1]
        params, cond = inner_params(x)
        if not params:
            continue
        ws = [e for e in p.events if ctx.fx.is_observable_write(e) and e.idx < x.nevents]
        rk = refusal_key(x.func, x.cls, x.explicit)
        if not ws:
            pre.setdefault(rk, set()).update(params)
            continue
        w = ws[0]
        wk = write_key(w.op.split(".")[-1], ctx.fx.key(w))
        out.setdefault((wk, rk), (p, x, w))
    return out, pre


def wild_match(entries, api, write, refusal):
    """triage entries may generalise over the API member ('*')"""
    for e in entries:
        if e["api"] != "*":
            continue
        if e["write"] == write and e["refusal"] == refusal:
            return e
    return None


def load(path, default):
    if os.path.exists(path):
        with open(path) as fh:
            return json.load(fh)
    return default


def run(M, rep, tier, only=None):
    ctx = Ctx(M)
    ctx2 = None
    R1 = rep.rule("C12.R1", "no observable write precedes an argument refusal (all paths, interprocedural)", floor=80,
                  technique="path-sensitive abstract interpretation: event order + taint of the refusing guard")
    R2 = rep.rule("C12.R2", "pre-write refusal inventory does not shrink", floor=60,
                  technique="refusal inventory per API member vs confirmed inventory")
    R7 = rep.rule("C12.R7", "a clean-up handler deletes only what the refused call itself created", floor=1,
                  technique="event order on raising paths: deletions after the handler mark need a write before it")
    R3 = rep.rule("C12.R3", "create_multi_tag rolls back exactly the arrays it created and re-raises", floor=1,
                  technique="handler paths: created-flag / delete-key correspondence")
    triage = load(TRIAGE, {"entries": []})
    tri = {(e["api"], e["write"], e["refusal"]): e for e in triage["entries"]}
    inventory = load(INVENTORY, {"apis": {}})["apis"]
    current_inv = {}
    dump = os.environ.get("NIXSA_C12_DUMP")
    dumped = []
    for cn, name, tb, f in surface(M, ROOT_CLASSES, ("methods", "setters", "deleters")):
        if not public_root(name):
            continue
        key = api_key(cn, name, tb)
        if not ctx.cg.writes(f):
            continue
        try:
            paths = ctx.paths(f, cn, max_paths=30000)
        except Budget as e:
            raise AnalysisError("C12: %s has too many abstract paths (%s)" % (key, e))
        trs, pre = triples(ctx, cn, name, tb, f, paths)
        # loops: a second iteration may refuse after the first one wrote (small members only)
        if len(paths) <= (400 if tier == "thorough" else 60) and any(isinstance(n, (ast.For, ast.While)) for n in ast.walk(f.node)):
            if ctx2 is None:
                ctx2 = Ctx(M, unroll=2)
            try:
                t2, p2 = triples(ctx2, cn, name, tb, f, ctx2.paths(f, cn, max_paths=6000))
                for k, v in t2.items():
                    if "elem(" in k[0] or "#" in k[0]:
                        k = ("loop:" + k[0].split(":")[0], k[1])
                    trs.setdefault(k, v)
            except Budget:
                pass
        # R7: what a refused call undoes in a handler it must have done itself
        bad7 = None
        for p in paths:
            if p.terminal[0] != "raise":
                continue
            hidx = [e.idx for e in p.events if e.kind == "mark" and e.op.startswith("handler:")]
            if not hidx:
                continue
            h0 = hidx[0]
            dels = [e for e in p.events if e.idx > h0 and e.kind == "layer" and e.op.split(".")[-1] in ("delete", "delete_all", "__delitem__")]
            made = [e for e in p.events if e.idx < h0 and ctx.fx.is_observable_write(e)]
            if dels and not made:
                bad7 = (p, dels[0])
        if any(isinstance(n_, ast.Try) for n_ in ast.walk(f.node)):
            rep.check(R7, key, bad7 is None, "%s: on a refused call the clean-up handler deletes (%s) although the call had not created "
                      "anything yet -- what it deletes existed before the call (e.g. the entity whose name made the call a duplicate)" % (
                          key, bad7[1].op if bad7 else ""), site=bad7[1].site if bad7 else None, detail=describe_path(bad7[0], 40) if bad7 else None)
        inv = {}
        for rk, ps in pre.items():
            parts = [x for x in rk.split(":") if x != "implicit"]
            inv.setdefault(parts[-1], set()).update(ps)
        current_inv[key] = {k: sorted(v) for k, v in inv.items()}
        if not trs:
            rep.ok(R1, key, "%d paths, no write before an argument refusal" % len(paths))
        else:
            rep.ok(R1, key, "%d paths, %d triaged write-before-refusal triple(s)" % (len(paths), len(trs)))
        for (wk, rk), (p, x, w) in sorted(trs.items()):
            if "elem(" in wk:
                wk = "loop:" + wk.split(":")[0]
            ident = "%s | %s | %s" % (key, wk, rk)
            dumped.append({"api": key, "write": wk, "refusal": rk, "params": sorted(inner_params(x)[0]),
                           "site": x.site, "write_site": w.site})
            e = tri.get((key, wk, rk)) or wild_match(triage["entries"], key, wk, rk)
            if e is not None and e.get("class") in ("infeasible", "rollback"):
                rep.ok(R1, ident, "%s: %s" % (e["class"], e.get("reason", "")))
                continue
            rep.bad(R1, ident, "%s: storage is written (%s at %s) before the call is refused with %s (%s) -- the "
                    "refused call leaves a change behind" % (key, wk, w.site, x.cls, x.site), site=x.site, detail=describe_path(p, 60))
    if dump:
        with open(dump, "w") as fh:
            json.dump({"triples": dumped, "inventory": current_inv}, fh, indent=1)

    # ---------------- R2
    for api, want in sorted(inventory.items()):
        have = current_inv.get(api)
        for rk, wparams in want.items():
            ident = "%s | %s" % (api, rk)
            if have is None:
                rep.bad(R2, ident, "required mechanism not found: %s is no longer an analysed mutating API member" % api)
            elif rk not in have:
                rep.bad(R2, ident, "%s no longer refuses with %s before writing (validation removed, weakened or moved "
                        "behind a write)" % (api, rk))
            elif api.endswith("@set") and wparams and have[rk]:
                rep.ok(R2, ident)       # a setter has one value parameter; what it is called is not part of the API
            elif not set(wparams) <= set(have[rk]):
                rep.bad(R2, ident, "%s: the %s refusal before writing no longer depends on argument(s) %s" % (
                    api, rk, sorted(set(wparams) - set(have[rk]))))
            else:
                rep.ok(R2, ident)

    # ---------------- R4 (shared with C01.R4): the h5py write after the creation cannot fail on a shape mismatch
    R4 = rep.rule("C12.R4", "create_data_array refuses a shape argument that differs from the data's shape before creating anything", floor=8,
                  technique="decision table of the shape guard evaluated on shape pairs (shared with C01.R4)")
    from . import c01
    c01.shape_guard_table(M, rep, R4)

    # ---------------- R5 (shared with C10.R7): a mixed value list is refused before the property exists
    R5 = rep.rule("C12.R5", "create_property refuses a mixed value list before creating the property", floor=8,
                  technique="decision-table extraction (two unrolled elements) evaluated on value lists (shared with C10.R7)")
    from . import c10
    c10.create_property_table(M, rep, R5)

    # ---------------- R6 (shared with C05.R2): the same-block guard of the link lists tests identity -- a same-named entity of
    # another block must be refused, not linked
    R6 = rep.rule("C12.R6", "the membership test that guards linking is decided by the entity's id", floor=1,
                  technique="dependency of every True-answering path on the item's id (shared with C05.R2)")
    from .c05 import container_identity
    n6ctx = Ctx(M, coarse=False)
    container_identity(M, rep, R6, n6ctx, n6ctx)

    # ---------------- R3
    f = ctx.member("Block", "create_multi_tag")
    if f is None:
        rep.bad(R3, "Block.create_multi_tag", "required mechanism not found")
        return
    paths = ctx.paths(f, "Block")
    bad = None
    checked = 0
    for p in paths:
        if p.terminal[0] != "raise":
            continue
        hidx = [e.idx for e in p.events if e.kind == "mark" and e.op.startswith("handler:")]
        if not hidx:
            continue
        h0 = hidx[0]
        if p.terminal[1].nevents > h0 + 1:
            continue        # the failure is one of the handler's own lookups (file corruption), not the re-raise
        created = []
        for e in p.events:
            if e.idx < h0 and e.kind == "layer" and e.op.endswith(".set_attr") and ctx.fx.key(e) == "name" \
                    and any(q.endswith("Block.create_data_array") for q in e.stack):
                v = e.kw.get("value")
                created.append(show(v.t) if v is not None else "?")
        deleted = []
        for e in p.events:
            if e.idx > h0 and e.kind == "layer" and e.op.endswith(".delete_all"):
                deleted.append(e)
        lookups = [show(e.key.t) for e in p.events if e.idx > h0 and e.kind == "layer"
                   and e.op.split(".")[-1] in ("get_by_id_or_name", "get_by_name") and e.key is not None]
        checked += 1
        if len(created) != len(deleted):
            bad = (p, "the handler deletes %d array(s) but %d were created before the failure" % (len(deleted), len(created)))
            break
        for c in created:
            if c not in lookups:
                bad = (p, "the handler does not delete the array named %s that was created" % c)
                break
        if bad:
            break
    if bad:
        rep.bad(R3, "Block.create_multi_tag", bad[1], site=f.file + ":%d" % f.node.lineno, detail=describe_path(bad[0], 80))
    elif not checked:
        rep.bad(R3, "Block.create_multi_tag", "required mechanism not found: no failing path runs a rollback handler", site=f.file)
    else:
        rep.ok(R3, "Block.create_multi_tag", "%d failing paths with rollback" % checked)
