# -*- coding: utf-8 -*-
"""
C14 -- the validator reports every catalogued inconsistency, and only for the objects that have it. Decided statically:
 R1  traversal and attribution in check_file: every container kind named in the statement is iterated (source and section
     trees recursively); the results of check_<kind>(v) are stored under that very object v, errors and warnings in
     their own positions
 R2  no dropped diagnostics: in every check_* function whatever is appended to / returned by a helper as errors
     (warnings) is part of the returned errors (warnings)
 R3  catalogue coverage: every inconsistency named in the statement has a message that is appended in a function
     reachable from check_file
 R4  guard tables: the extracted decision tables of the check_* functions are evaluated on scenarios (small objects
     enumerating the cases of the catalogue) and the set of reported catalogue messages is compared with the set the
     statement requires -- count mismatches are two-sided, ticks strictly increasing, interval missing vs negative,
     unit set and not atomic SI, position/extent/unit length relations, missing type/name/id/date
 R5  the unit-compatibility helper looks at every reference (not only the first one)
"""
import ast
import itertools
from types import SimpleNamespace as O
from .common import Ctx, describe_path
from nixsa.px import explore
from nixsa.px_core import Budget
from nixsa.model import AnalysisError
from nixsa.dtable import TermEval, NOTHING, Unknown
from nixsa.values import show, is_const, subterms, params_of, V

VAL = "nixio.validator:"
HELPERS = ("check_entity", "check_range_dimension", "check_sampled_dimension", "check_set_dimension", "check_feature",
           "get_dim_units", "tag_units_match_refs_units", "check_property")
KINDS = {"blocks": "check_block", "groups": "check_group", "data_arrays": "check_data_array", "tags": "check_tag",
         "multi_tags": "check_multi_tag", "sources": "check_source", "sections": "check_section"}
# catalogue entries the statement names -> constant of ValidationError
CATALOGUE = ["DimensionMismatch", "RangeDimTicksMismatch", "SetDimLabelsMismatch", "NoTicks", "UnsortedTicks", "InvalidDimensionUnit",
             "InvalidUnit", "NoSamplingInterval", "InvalidSamplingInterval", "NoPosition", "NoPositions", "PositionDimensionMismatch",
             "PositionsDimensionMismatch", "ExtentDimensionMismatch", "ExtentsDimensionMismatch", "PositionExtentMismatch",
             "PositionsExtentsMismatch", "ReferenceUnitsMismatch", "ReferenceUnitsIncompatible", "NoType", "NoName", "NoID", "NoDate"]
SI = {"mV", "s", "ms", "Hz", "V", "kHz"}


def messages(M):
    c = M.classes.get("ValidationError")
    if c is None:
        raise AnalysisError("ValidationError catalogue class not found")
    out = {}
    for k, v in c.attrs.items():
        try:
            out[k] = ast.literal_eval(v)
        except Exception:
            pass
    return out


def message_names(t, by_text):
    """catalogue constants whose text occurs in an abstract value"""
    out = set()
    for x in subterms(t):
        if x and x[0] == "const" and isinstance(x[1], str) and x[1] in by_text:
            out.add(by_text[x[1]])
    return out


class Scenario:
    """valuation of the attribute terms of a check_* function's parameters"""

    def __init__(self, roots, loops=(), idx_start=1):
        self.roots = roots
        self.loops = list(loops)
        self.idx_start = idx_start

    def leaf(self, t):
        h = t[0]
        if h == "param":
            return self.roots.get(t[1], NOTHING)
        if h == "attr":
            try:
                base = self.ev(t[1])
            except Unknown:
                return NOTHING
            if isinstance(base, O):
                return getattr(base, t[2], None)
            if isinstance(base, (list, tuple)) and t[2] == "shape":
                return (len(base),)
            return NOTHING
        if h == "elem":
            try:
                base = self.ev(t[1])
            except Unknown:
                return NOTHING
            if isinstance(base, (list, tuple)) and len(t) > 2 and t[2] < len(base):
                return base[t[2]]
            return NOTHING
        if h == "idx":
            return t[2] + self.idx_start
        if h == "enum":
            return ("enum", t[1], t[2])
        if h == "call" and isinstance(t[1], str):
            name = t[1].split(":")[-1]
            if name in ("is_si", "is_atomic"):
                return self.ev(t[2][0]) in SI
            if name == "scalable":
                a, b = self.ev(t[2][0]), self.ev(t[2][1])
                return a in SI and b in SI and a.lstrip("mk") == b.lstrip("mk")
            if name == "get_dim_units":
                return list(getattr(self.ev(t[2][0]), "dim_units", []))
            if name == "tag_units_match_refs_units":
                tu, rus = self.ev(t[2][0]), self.ev(t[2][1])
                return spec_units_match(tu, rus)
        return NOTHING

    def ev(self, t):
        return self.te.ev(t)

    def evaluator(self, loopids):
        sc = self

        def atomfn(a):
            if a[0] == "iter":
                lid = a[1]
                if lid not in loopids:
                    loopids.append(lid)
                n = sc.loops[loopids.index(lid)] if loopids.index(lid) < len(sc.loops) else 0
                return a[2] < n
            return NOTHING
        self.te = TermEval(self.leaf, atomfn=atomfn)
        return self.te


def spec_units_match(tag_units, refs_units):
    for ru in refs_units:
        for tu, r in zip(tag_units, ru):
            if tu == "" and r == "":
                continue
            if not (tu in SI and r in SI and tu.lstrip("mk") == r.lstrip("mk")):
                return False
    return True


def reported(M, paths, sc, by_text, what):
    """(set of catalogue messages reported as errors on the scenario, matching path)"""
    order = sorted({a[1] for p in paths for a, v in p.decisions if a[0] == "iter"}, key=lambda x: str(x))
    te = sc.evaluator(order)
    hit = []
    for p in paths:
        ok = True
        for a, v in p.decisions:
            try:
                r = te.atom(a)
            except Unknown as e:
                raise AnalysisError("C14: %s depends on an unmodelled condition %s (%s)" % (what, show(a)[:160], e))
            except (TypeError, AttributeError, IndexError) as e:
                ok = False
                break
            if r != v:
                ok = False
                break
        if ok:
            hit.append(p)
    if len(hit) != 1:
        raise AnalysisError("C14: %d rows of the decision table of %s apply to a scenario (%s)" % (len(hit), what, vars(sc.roots[list(sc.roots)[0]]) if sc.roots else ""))
    p = hit[0]
    rt = p.terminal[1].t
    errs = rt[1][0] if rt[0] == "tuple" and len(rt[1]) >= 1 else rt
    return message_names(errs, by_text), p


def result_dict_roles(cf):
    """local dictionaries of check_file that end up under 'errors' / 'warnings' of the returned dictionary: {variable: role}"""
    roles = {}
    for n in ast.walk(cf.node):
        if isinstance(n, ast.Return) and isinstance(n.value, ast.Dict):
            for k, v in zip(n.value.keys, n.value.values):
                if isinstance(k, ast.Constant) and k.value in ("errors", "warnings") and isinstance(v, ast.Name):
                    roles[v.id] = k.value
    return roles


def filing_contract(cfg, g, dict_roles=None):
    """a leaf closure of check_file that files diagnostics. Two shapes, derived from its own abstract paths:
    {"kind": "files", obj, errors, warnings}: parameters that are the key, the value under 'errors', the value under 'warnings';
    {"kind": "checks", obj, check}: it applies the check function it is handed to the object and files the two results.
    None when it is neither."""
    from nixsa.callgraph import _OpaqueEnv
    try:
        paths = explore(cfg, g, None, None, 2000, closure_env=_OpaqueEnv())
    except (Budget, AnalysisError):
        return None
    names = [a.arg for a in g.node.args.args]
    roles = {}
    applied = set()
    for p in paths:
        for e in p.events:
            if e.kind == "callv" and e.recv is not None and e.recv.t and e.recv.t[0] == "param" and len(e.args) == 1 and \
                    e.args[0].t and e.args[0].t[0] == "param":
                applied.add((e.recv.t[1], e.args[0].t[1]))
            if e.kind == "local" and e.op == "setitem" and e.recv is not None and e.key is not None and e.args:
                which = [x[1] for x in subterms(e.recv.t) if x and x[0] == "const" and x[1] in ("errors", "warnings")]
                if not which and dict_roles and e.recv.t and e.recv.t[0] == "free" and e.recv.t[1] in dict_roles:
                    which = [dict_roles[e.recv.t[1]]]        # a dictionary of its own that the caller returns under that key
                if len(which) != 1 or e.key.t[0] != "param":
                    return None
                v = e.args[0].t
                if v[0] == "param":
                    val = ("param", v[1])
                elif v[0] == "unpack" and v[1][0] == "call" and len(v[1][2]) == 1 and v[1][2][0][0] == "param":
                    val = ("result", v[1][1], v[1][2][0][1], v[2])     # i-th result of <callee>(<param>)
                else:
                    return None
                roles.setdefault(which[0], set()).add((e.key.t[1], val))
    if set(roles) != {"errors", "warnings"} or any(len(v) != 1 for v in roles.values()):
        return None
    (ko, ve), = roles["errors"]
    (kw_, vw), = roles["warnings"]
    if ko != kw_ or ve == vw:
        return None

    def always_filed(pe_atom, pw_atom):
        for p in paths:
            if not p.normal:
                continue
            dec = {a[1]: v for a, v in p.decisions if a[0] == "truthy"}
            stored = {x[1] for e in p.events if e.kind == "local" and e.op == "setitem" for x in subterms(e.recv.t)
                      if x and x[0] == "const" and x[1] in ("errors", "warnings")} | \
                     {dict_roles[e.recv.t[1]] for e in p.events if e.kind == "local" and e.op == "setitem" and dict_roles and e.recv is not None
                      and e.recv.t and e.recv.t[0] == "free" and e.recv.t[1] in dict_roles}
            if dec.get(pe_atom, True) and "errors" not in stored:
                return False
            if dec.get(pw_atom, True) and "warnings" not in stored:
                return False
        return True
    if ve[0] == "param" and vw[0] == "param":
        if not always_filed(("param", ve[1]), ("param", vw[1])):
            return None
        return {"kind": "files", "obj": names.index(ko), "errors": names.index(ve[1]), "warnings": names.index(vw[1])}
    if ve[0] == "result" and vw[0] == "result" and ve[1:3] == vw[1:3] and (ve[3], vw[3]) == (0, 1) and ve[2] == ko and \
            len(applied) == 1 and next(iter(applied))[1] == ko and next(iter(applied))[0] in names:
        return {"kind": "checks", "obj": names.index(ko), "check": names.index(next(iter(applied))[0])}
    return None


def traversal_rule(M, rep, R1, vm):
    """check_file checks the elements of every container kind with the kind's own check function, walks source and
    section trees below the first level, and files each result under the checked object with errors and warnings in their
    places. Decided on the abstract paths of check_file; the check_* functions and the filing closure are opaque calls."""
    cf = vm.funcs.get("check_file")
    if cf is None:
        rep.bad(R1, "check_file", "required mechanism not found")
        return
    c = Ctx(M, coarse=False)
    c.cfg.compose = False
    for n, f in vm.funcs.items():
        if n.startswith("check_") and n != "check_file":
            c.cfg.opaque[f.qual] = ("py", "tuple")
    contracts = {}
    for n, g in getattr(cf, "nested", {}).items():
        if any(isinstance(x, (ast.For, ast.While)) for x in ast.walk(g.node)):
            continue
        k = filing_contract(c.cfg, g, result_dict_roles(cf))
        if k is not None:
            contracts[g.qual] = k
            c.cfg.opaque[g.qual] = ("const", None)
    def force(atom, domain):
        # the rule is about the traversal: it looks at the one family of paths on which every container holds exactly one
        # element, nothing raises and every check reports something
        k = atom[0]
        if k == "iter":
            return atom[2] == 0
        if k in ("lraise", "oraise", "xraise", "rraise"):
            return False
        if k == "enumvalid":
            return True
        return list(domain)[0]
    c.cfg.force = force
    try:
        paths = explore(c.cfg, cf, None, None, 20000)
    except Budget:
        raise AnalysisError("C14.R1: check_file has too many abstract paths (is the filing of results written out in every loop?)")
    finally:
        c.cfg.force = None
    KCLS = {"blocks": "Block", "groups": "Group", "data_arrays": "DataArray", "tags": "Tag", "multi_tags": "MultiTag",
            "sources": "Source", "sections": "Section"}

    def cls_of(v):
        if v.t and v.t[0] == "inst":
            return v.t[1]
        for t in v.ty or ():
            if isinstance(t, tuple) and t[0] == "obj":
                return t[1]
        # an abstract element of a container accessor: the accessor's name says what it holds
        if v.t and v.t[0] == "elem" and v.t[1]:
            src = v.t[1]
            while src and src[0] == "call" and src[1] in ("iter", "reversed", "list", "tuple") and src[2]:
                src = src[2][0]         # an iterator / copy of a container yields the container's elements
            if src and src[0] == "attr":
                for kind, cn in KCLS.items():
                    if src[2] in (kind, "_" + kind):
                        return cn
            if src and src[0] == "inst" and src[1].endswith("Container") and src[1][:-len("Container")] in KCLS.values():
                return src[1][:-len("Container")]
        return None
    checked = {}        # class of the checked object -> {(check function, argument term)}
    filed = set()       # argument terms filed correctly
    misfiled = set()
    walked = set()      # classes whose child container is handed to a recursive call after an element was checked
    for p in paths:
        if not p.normal:
            continue
        calls = {}
        for e in p.events:
            if e.kind == "ocall" and e.op.startswith(VAL + "check_") and "<locals>" not in e.op and e.args:
                fn = e.op.split(":")[-1]
                calls[e.args[0].t] = fn
                checked.setdefault(cls_of(e.args[0]), set()).add((fn, e.args[0].t))
            if e.kind == "ocall" and e.op in contracts and contracts[e.op]["kind"] == "checks" and len(e.args) >= 2:
                k_ = contracts[e.op]
                ft_ = e.args[k_["check"]].t
                if ft_ and ft_[0] == "fn" and isinstance(ft_[1], str) and ft_[1].startswith(VAL + "check_"):
                    calls[e.args[k_["obj"]].t] = ft_[1].split(":")[-1]
            handed = None
            if e.kind == "rcall" and e.args:
                handed = e.args[0]
            elif e.kind == "local" and e.op in ("list.append", "list.extend", "list.insert", "list.__iadd__") and e.args:
                # an explicit work list instead of recursion: the children container (or an iterator over it) is queued
                for a in e.args:
                    for x in subterms(a.t):
                        if x and x[0] == "inst" and x[1] in ("SourceContainer", "SectionContainer"):
                            handed = V(x, [("obj", x[1])])
            if e.kind in ("rcall", "local") and e.args and (e.kind == "rcall" or e.op.startswith("list.")):
                # ... or the accessor of an abstract element that was just checked: <checked element>.sources
                for a in e.args:
                    for x in subterms(a.t):
                        for cn_, kind_ in (("Source", "sources"), ("Section", "sections")):
                            if x and x[0] == "attr" and x[2] in (kind_, "_" + kind_) and calls.get(x[1]) == KINDS[kind_]:
                                walked.add(cn_)
            if handed is not None:
                for cn in ("Source", "Section"):
                    e_args0 = handed
                    site = e_args0.t[2] if e_args0.t and e_args0.t[0] == "inst" and len(e_args0.t) > 2 else ""
                    mod = M.classes[cn].module.relpath.split("/")[-1] if cn in M.classes else "?"
                    kfn = [KINDS[k_] for k_, c2 in KCLS.items() if c2 == cn][0]
                    if cls_of(e_args0) == cn + "Container" and str(site).startswith(mod) and kfn in calls.values():
                        walked.add(cn)
        filings = []
        for e in p.events:
            if e.kind == "ocall" and e.op in contracts:
                k = contracts[e.op]
                if k["kind"] == "files" and len(e.args) >= 3:
                    filings.append((e.args[k["obj"]].t, e.args[k["errors"]].t, e.args[k["warnings"]].t))
                elif k["kind"] == "checks" and len(e.args) >= 2:
                    # the closure applies the check it is handed and files both results under the object (its contract)
                    ft = e.args[k["check"]].t
                    fq = [x[1] for x in subterms(ft) if x and x[0] == "fn" and isinstance(x[1], str) and x[1].startswith(VAL + "check_")]
                    if fq:
                        fn = fq[0].split(":")[-1]
                        o = e.args[k["obj"]]
                        calls[o.t] = fn
                        checked.setdefault(cls_of(o), set()).add((fn, o.t))
                        filed.add(o.t)
        direct = {}
        for e in p.events:
            if e.kind == "local" and e.op == "setitem" and e.recv is not None and e.key is not None and e.args:
                which = [x[1] for x in subterms(e.recv.t) if x and x[0] == "const" and x[1] in ("errors", "warnings")]
                if len(which) == 1:
                    direct.setdefault(e.key.t, {})[which[0]] = e.args[0].t
        for k, d in direct.items():
            filings.append((k, d.get("errors"), d.get("warnings")))
        for o, er, wa in filings:
            fn = calls.get(o)
            if fn is None:
                continue
            oke = er is not None and er[0] == "unpack" and er[2] == 0 and er[1][0] == "call" and er[1][1].endswith(":" + fn) and o in er[1][2]
            okw = wa is not None and wa[0] == "unpack" and wa[2] == 1 and wa[1][0] == "call" and wa[1][1].endswith(":" + fn) and o in wa[1][2]
            if oke and okw:
                filed.add(o)
            else:
                misfiled.add(o)
    for kind, fn in KINDS.items():
        got = checked.get(KCLS[kind], set())
        right = {a for g, a in got if g == fn}
        wrong = sorted(g for g, a in got if g != fn)
        rep.check(R1, kind, bool(right) and not wrong and right <= filed and not (right & misfiled),
                  "check_file: %s" % ("the %s of the file are not visited" % kind if not got else
                                      ("%s are checked with %s instead of %s" % (kind, wrong[0], fn) if wrong else
                                       "the results for an element of %s are not stored under that element with errors and warnings in "
                                       "their places" % kind)), site="%s:%d" % (cf.file, cf.node.lineno))
    for kind, cn in (("sources", "Source"), ("sections", "Section")):
        rep.check(R1, "tree of " + kind, cn in walked,
                  "the %s tree is not walked below its first level: the child %s of a checked %s are not handed to the recursive walk" % (
                      kind, kind, cn), site=cf.file)
    rep.check(R1, "filing", bool(contracts) or bool(filed), "check_file does not file errors under 'errors' and warnings under "
              "'warnings' for the checked object", site=cf.file)
    return {fn for got in checked.values() for fn, _ in got}


def contained(a, whole):
    """is the collected term part of the returned one? A list built by a helper and spliced into the returned list is
    there element by element"""
    subs = set(subterms(whole))
    if a in subs:
        return True
    if a and a[0] in ("list", "tuple") and a[1]:
        return all(x in subs or (x and x[0] == "star" and (x[1] in subs or contained(x[1], whole))) for x in a[1])
    return False


def run(M, rep, tier, only=None):
    ctx = Ctx(M, coarse=False)
    ctx.cfg.compose = False
    for n in HELPERS:
        ctx.cfg.opaque[VAL + n] = ("list", ("py", "str")) if n in ("check_entity", "check_feature") else None
    lctx = Ctx(M, coarse=False)          # helpers themselves
    lctx.cfg.compose = False
    msgs = messages(M)
    by_text = {v: k for k, v in msgs.items() if isinstance(v, str)}
    vm = M.modules.get("nixio.validator")
    R1 = rep.rule("C14.R1", "check_file visits every container kind and files the results under the checked object", floor=7,
                  technique="def-use of loop variable, check call and update_results arguments (AST)")
    R2 = rep.rule("C14.R2", "no diagnostics are dropped on the way to the returned lists", floor=6,
                  technique="returned-term membership of every appended / helper-returned list on all abstract paths")
    R3 = rep.rule("C14.R3", "every catalogued inconsistency has a message that is produced below check_file", floor=20,
                  technique="call-graph reachability of the append sites")
    R4 = rep.rule("C14.R4", "reported messages = required messages on every scenario of the catalogue", floor=150,
                  technique="decision-table extraction; evaluation of the extracted guards on enumerated scenarios; comparison "
                            "with the statement's catalogue")
    R5 = rep.rule("C14.R5", "unit compatibility is checked against every reference", floor=1,
                  technique="second loop iteration reachable after a compatible first one")
    if vm is None:
        rep.bad(R1, "nixio.validator", "required mechanism not found")
        return

    # ---------------------------------------------------------------- R1 (abstract paths of check_file)
    called = traversal_rule(M, rep, R1, vm) or set()

    # ---------------------------------------------------------------- R3
    reach = set()
    todo = ["check_file"] + sorted(called)      # the check functions check_file was seen to call (R1), however they are passed
    while todo:
        q = todo.pop()
        if q in reach or q not in vm.funcs:
            continue
        reach.add(q)
        f = vm.funcs[q]
        for g in [f] + list(getattr(f, "nested", {}).values()):
            for n in ast.walk(g.node):
                if isinstance(n, ast.Call) and isinstance(n.func, ast.Name):
                    todo.append(n.func.id)
    produced = {}
    for q in reach:
        f = vm.funcs[q]
        for n in ast.walk(f.node):
            if isinstance(n, ast.Attribute) and isinstance(n.value, ast.Name) and n.value.id == "ValidationError":
                produced.setdefault(n.attr, q)
            elif isinstance(n, ast.Name) and isinstance(n.ctx, ast.Load) and n.id in vm.assigns:
                # a module-level table of rules the function applies
                for m_ in ast.walk(vm.assigns[n.id]):
                    if isinstance(m_, ast.Attribute) and isinstance(m_.value, ast.Name) and m_.value.id == "ValidationError":
                        produced.setdefault(m_.attr, q)
    for cname in CATALOGUE:
        rep.check(R3, cname, cname in msgs and cname in produced, "the catalogue entry %s %s" % (
            cname, "does not exist" if cname not in msgs else "is never reported by a function reachable from check_file"),
            what="reported in %s" % produced.get(cname))

    # ---------------------------------------------------------------- R4 scenarios
    def table(fname, c=ctx):
        f = vm.funcs.get(fname)
        if f is None:
            rep.bad(R4, fname, "required mechanism not found")
            return None, None
        try:
            return f, explore(c.cfg, f, None, None, 60000)
        except Budget:
            raise AnalysisError("C14: too many abstract paths in %s" % fname)

    def compare(fname, f, paths, sc, want, label, own):
        got, p = reported(M, paths, sc, by_text, fname)
        got &= own
        rep.check(R4, "%s/%s" % (fname, label), got == want, "%s on %s reports %s; the catalogue requires %s" % (
            fname, label, sorted(got) or "nothing", sorted(want) or "nothing"), site="%s:%d" % (f.file, f.node.lineno),
            detail=describe_path(p) if got != want else None)

    # check_entity
    f, paths = table("check_entity", lctx)
    if paths:
        own = {"NoType", "NoID", "NoName", "NoDate"}
        for ty, i, nm, dt in itertools.product(("t", "", None), ("id", ""), ("n", ""), (1, None, 0)):
            want = set()
            if not ty:
                want.add("NoType")
            if not i:
                want.add("NoID")
            if not nm:
                want.add("NoName")
            if dt is None:
                want.add("NoDate")
            sc = Scenario({"entity": O(type=ty, id=i, name=nm, created_at=dt)})
            compare("check_entity", f, paths, sc, want, "type=%r,id=%r,name=%r,created_at=%r" % (ty, i, nm, dt), own)
    # check_sampled_dimension
    f, paths = table("check_sampled_dimension", lctx)
    if paths:
        own = {"NoSamplingInterval", "InvalidSamplingInterval", "InvalidDimensionUnit"}
        for iv, u, off in itertools.product((None, 0, -0.5, -2, 0.1, 3), (None, "", "mV", "furlong"), (None, 0.0, 1.5)):
            want = set()
            if not iv:
                want.add("NoSamplingInterval")
            elif iv < 0:
                want.add("InvalidSamplingInterval")
            if u and u not in SI:
                want.add("InvalidDimensionUnit")
            sc = Scenario({"dim": O(sampling_interval=iv, unit=u, offset=off), "idx": 1})
            compare("check_sampled_dimension", f, paths, sc, want, "interval=%r,unit=%r,offset=%r" % (iv, u, off), own)
    # check_range_dimension
    f, paths = table("check_range_dimension", lctx)
    if paths:
        own = {"NoTicks", "UnsortedTicks", "InvalidDimensionUnit"}
        for tk, u in itertools.product((None, (), (1.0,), (1.0, 2.0, 3.0), (1.0, 1.0, 2.0), (2.0, 1.0), (1.0, 3.0, 2.0)), (None, "s", "parsec")):
            want = set()
            if not tk:
                want.add("NoTicks")
            elif not all(a < b for a, b in zip(tk[:-1], tk[1:])):
                want.add("UnsortedTicks")
            if u and u not in SI:
                want.add("InvalidDimensionUnit")
            sc = Scenario({"dim": O(ticks=tk, unit=u), "idx": 1})
            compare("check_range_dimension", f, paths, sc, want, "ticks=%r,unit=%r" % (tk, u), own)
    # check_data_array
    f, paths = table("check_data_array")
    if paths:
        own = {"NoDataType", "DimensionMismatch", "RangeDimTicksMismatch", "SetDimLabelsMismatch", "InvalidDimensionIndex", "IncorrectDimensionIndex"}
        R = ("enum", "DimensionType", "Range")
        S = ("enum", "DimensionType", "Sample")
        T = ("enum", "DimensionType", "Set")
        dims = [None]
        for ix in (1, 2, 0, None):
            dims += [O(index=ix, dimension_type=R, ticks=tk, labels=None) for tk in (None, (1.0, 2.0), (1.0, 2.0, 3.0), ())]
            dims += [O(index=ix, dimension_type=T, ticks=None, labels=lb) for lb in (None, (), ("a", "b"), ("a", "b", "c"))]
            dims += [O(index=ix, dimension_type=S, ticks=None, labels=None)]
        for dim, rank, dty in itertools.product(dims, (0, 1, 2), ("float", None)):
            ndim = 0 if dim is None else 1
            shape = (3,) * rank
            want = set()
            if not dty:
                want.add("NoDataType")
            if ndim != rank:
                want.add("DimensionMismatch")
            if dim is not None and rank > 0:
                if not dim.index or dim.index <= 0:
                    want.add("InvalidDimensionIndex")
                elif dim.index != 1:
                    want.add("IncorrectDimensionIndex")
                if dim.dimension_type == R and dim.ticks is not None and len(dim.ticks) != 3:
                    want.add("RangeDimTicksMismatch")
                if dim.dimension_type == T and dim.labels and len(dim.labels) != 3:
                    want.add("SetDimLabelsMismatch")
            da = O(data_type=dty, dimensions=[dim] if dim is not None else [], shape=shape, unit=None, polynom_coefficients=(), expansion_origin=None)
            sc = Scenario({"da": da}, loops=[min(ndim, rank)])
            lab = "rank=%d,dtype=%r,dim=%s" % (rank, dty, None if dim is None else "(index=%r,%s,ticks=%r,labels=%r)" % (
                dim.index, dim.dimension_type[2], dim.ticks, dim.labels))
            compare("check_data_array", f, paths, sc, want, lab, own)
    # check_tag
    f, paths = table("check_tag")
    if paths:
        own = {"NoPosition", "PositionDimensionMismatch", "PositionExtentMismatch", "ExtentDimensionMismatch", "ReferenceUnitsMismatch",
               "ReferenceUnitsIncompatible", "InvalidUnit"}
        for pos, ext, refranks, units_ in itertools.product(((), (1.0,), (1.0, 2.0)), (None, (1.0,), (1.0, 2.0)),
                                                           ((), (1,), (2,), (1, 2)), ((), ("mV",), ("s", "mV"), ("bogus",), ("",))):
            refs = [O(shape=(5,) * r, dim_units=["mV"] * r) for r in refranks]
            want = set()
            if not pos:
                want.add("NoPosition")
            if refs:
                if any(len(pos) != r for r in refranks):
                    want.add("PositionDimensionMismatch")
                if ext:
                    if len(ext) != len(pos):
                        want.add("PositionExtentMismatch")
                    if any(len(ext) != r for r in refranks):
                        want.add("ExtentDimensionMismatch")
                if any(r != len(units_) for r in refranks):
                    want.add("ReferenceUnitsMismatch")
                if not spec_units_match(units_, [["mV"] * r for r in refranks]):
                    want.add("ReferenceUnitsIncompatible")
            if any(u not in SI for u in units_ if u):
                want.add("InvalidUnit")
            tag = O(position=pos, extent=ext, references=refs, units=list(units_), features=[])
            sc = Scenario({"tag": tag}, loops=[0])
            compare("check_tag", f, paths, sc, want, "pos=%r,ext=%r,ref ranks=%r,units=%r" % (pos, ext, refranks, units_), own)
    # check_multi_tag
    f, paths = table("check_multi_tag")
    if paths:
        own = {"NoPositions", "PositionsDimensionMismatch", "PositionsExtentsMismatch", "ExtentsDimensionMismatch", "ReferenceUnitsMismatch",
               "ReferenceUnitsIncompatible", "InvalidUnit"}
        shapes = (None, (4,), (4, 1), (4, 2))
        for ps, es, refranks, units_ in itertools.product(shapes, (None, (4,), (4, 2), (3, 2)), ((), (1,), (2,)), ((), ("mV",), ("s", "mV"))):
            if ps is None and refranks:
                continue            # positions are mandatory for looking at references (the accessor raises)
            refs = [O(shape=(5,) * r, dim_units=["mV"] * r) for r in refranks]
            want = set()
            if ps is None:
                want.add("NoPositions")
            if refs:
                posdim = 1 if len(ps) == 1 else ps[1]
                if any(posdim != r for r in refranks):
                    want.add("PositionsDimensionMismatch")
                if es:
                    if ps != es:
                        want.add("PositionsExtentsMismatch")
                    extdim = 1 if len(es) == 1 else es[1]
                    if any(extdim != r for r in refranks):
                        want.add("ExtentsDimensionMismatch")
                if any(r != len(units_) for r in refranks):
                    want.add("ReferenceUnitsMismatch")
                if not spec_units_match(units_, [["mV"] * r for r in refranks]):
                    want.add("ReferenceUnitsIncompatible")
            mt = O(positions=O(shape=ps) if ps is not None else None, extents=O(shape=es) if es is not None else None, references=refs,
                   units=list(units_), features=[])
            sc = Scenario({"mtag": mt}, loops=[0])
            compare("check_multi_tag", f, paths, sc, want, "positions=%r,extents=%r,ref ranks=%r,units=%r" % (ps, es, refranks, units_), own)

    # ---------------------------------------------------------------- R2
    for fname, c in (("check_data_array", ctx), ("check_tag", ctx), ("check_multi_tag", ctx), ("check_section", ctx),
                     ("check_block", ctx), ("check_group", ctx), ("check_source", ctx)):
        f = vm.funcs.get(fname)
        if f is None:
            rep.bad(R2, fname, "required mechanism not found")
            continue
        try:
            paths = explore(c.cfg, f, None, None, 60000)
        except Budget:
            raise AnalysisError("C14: too many abstract paths in %s" % fname)
        bad = None
        for p in paths:
            if not p.normal:
                continue
            rt = p.terminal[1].t
            if rt[0] != "tuple" or len(rt[1]) != 2:
                bad = (p, "does not return an (errors, warnings) pair")
                break
            errs, warns = rt[1]
            for e in p.events:
                if e.kind == "local" and e.op in ("list.append", "list.extend") and e.args:
                    a = e.args[0].t
                    in_e = contained(a, errs)
                    in_w = contained(a, warns)
                    if not (in_e or in_w):
                        bad = (p, "a diagnostic that was collected (%s) is not part of what is returned" % show(a)[:80])
                    names = message_names(a, by_text)
                    if names and not in_e:
                        bad = (p, "the error message %s is not returned among the errors" % sorted(names))
            for x in set(subterms(errs)) | set(subterms(warns)) | {y for e in p.events for a_ in e.args for y in subterms(a_.t)}:
                pass
            calls = {x for e in p.events if e.kind == "ocall" and e.op.startswith(VAL + "check_") for x in [e]}
            for e in calls:
                hname = e.op.split(":")[-1]
                cterms = [x for x in set(subterms(errs)) | set(subterms(warns)) | set(subterms(rt)) if x and x[0] == "call" and x[1] == e.op]
                pair = hname not in ("check_entity", "check_feature")
                if pair:
                    oke = any(x and x[0] == "unpack" and x[1][0] == "call" and x[1][1] == e.op and x[2] == 0 for x in subterms(errs))
                    okw = any(x and x[0] == "unpack" and x[1][0] == "call" and x[1][1] == e.op and x[2] == 1 for x in subterms(warns))
                    if not oke:
                        bad = (p, "the errors returned by %s are dropped" % hname)
                    elif not okw:
                        bad = (p, "the warnings returned by %s are dropped" % hname)
                else:
                    if not any(x and x[0] == "call" and x[1] == e.op for x in subterms(errs)):
                        bad = (p, "the errors returned by %s are dropped" % hname)
        rep.check(R2, fname, bad is None, "%s %s" % (fname, bad[1] if bad else ""), site="%s:%d" % (f.file, f.node.lineno),
                  detail=describe_path(bad[0]) if bad else None)

    # ---------------------------------------------------------------- R5
    hf = vm.funcs.get("tag_units_match_refs_units")
    if hf is None:
        rep.bad(R5, "tag_units_match_refs_units", "required mechanism not found")
    else:
        c2 = Ctx(M, coarse=False, unroll=2)
        c2.cfg.compose = False
        paths = explore(c2.cfg, hf, None, None, 20000)
        loops = sorted({a[1] for p in paths for a, v in p.decisions if a[0] == "iter"}, key=str)
        second = False
        if loops:
            outer = min(loops, key=lambda l: int(str(l[0]).split(":")[-1]))
            for p in paths:
                if not any(a[0] == "iter" and a[1] == outer and a[2] == 1 and v is True for a, v in p.decisions):
                    continue
                # ... and that second reference is reached after a unit comparison was made for the first one
                first_cmp = [e for e in p.events if e.kind == "ocall" and e.op.endswith(":scalable") and
                             any(l[0] == "for" and l[2] == 0 for l in e.loop) and not any(l[0] == "for" and l[2] == 1 and
                                                                                          l[1] == outer[0] for l in e.loop)]
                if first_cmp:
                    second = True
        else:
            second = any("refs_units" in show(p.terminal[1].t) and ("all(" in show(p.terminal[1].t) or "any(" in show(p.terminal[1].t)) for p in paths)
        rep.check(R5, "tag_units_match_refs_units", second, "after a compatible first reference no further reference is looked at: an "
                  "unconvertible unit in a later reference is not reported", site="%s:%d" % (hf.file, hf.node.lineno))

    # ---- R6 (shared with C09.R1/R3): the unit verdicts of the validator are those of the unit functions
    from .common import run_shared
    from . import c09
    run_shared(c09, M, rep, tier, {"C09.R3": "C14.R6", "C09.R1": "C14.R7"})
