# -*- coding: utf-8 -*-
"""
C13 -- tree searches, parents and 'referring' lists. Decided statically:
 R1  the two tree finders (_find_sections / _find_sources) have the same abstract behaviour under sections<->sources
 R2  queue discipline of each finder on every abstract path: dequeue at the head only, enqueue at the tail only, the
     children of a dequeued node are enqueued iff its level + 1 <= limit (root entity at level 0, children of a
     file/block at level 1), the filter is applied exactly once to every dequeued node and the node is appended to the
     result iff the filter holds; the public find_* wrappers pass the given limit unless it is None *by identity*
 R3  'is child of' tests in Section.parent / Source.parent_source / _find_parent_recursive are membership tests of the
     entity (or its id) in the candidate's child container (identity-based by C05.R2) and the candidate that passed
     the test is what is returned; top-level candidates are taken in breadth-first order
 R4  every referring_<kind> iterates the container of that kind and selects by the metadata id / source membership of
     this very entity; referring_objects is the union of all members of the family
 R5  completeness against the model: every entity class that can link a source / a metadata section has a member in the
     family, and linked sources/sections are looked for over the whole tree
"""
import ast
import re
from .common import Ctx, surface, describe_path, ENTITY_CLASSES
from nixsa.px import explore
from nixsa.px_core import Budget
from nixsa.model import AnalysisError
from nixsa.values import show, is_const, subterms, params_of

FINDERS = (("nixio.util.find:_find_sections", "sections"), ("nixio.util.find:_find_sources", "sources"))


def norm_sig(p, kind):
    """abstract behaviour of a finder path with the tree kind abstracted away"""
    def n(s):
        s = re.sub(r"nixio/util/find\.py:\d+", "find.py", s)
        s = re.sub(r"find\.py:\d+:\d+#\d+", "site", s)
        s = s.replace("with_" + kind, "with_X").replace("." + kind, ".X").replace("'" + kind + "'", "'X'")
        s = s.replace("Section", "K").replace("Source", "K").replace("_" + kind, "_X")
        s = re.sub(r"(section|source|container|file|block)\.py:\d+(:\d+#\d+)?", "site", s)
        return s
    dec = tuple((n(show(a)), str(v)) for a, v in p.decisions if a[0] != "isnone")
    evs = tuple((e.kind, e.op, n(show(e.key.t)) if e.key is not None else None) for e in p.events if e.kind in ("local", "callv"))
    term = n(show(p.terminal[1].t)) if p.terminal[0] == "return" else "raise " + p.terminal[1].cls
    return (dec, evs, term)


def limit_relation(p):
    """(level term, relation of level to limit) from the decision that compares something with the parameter `limit` (or,
    on a path where the limit was found to be None, with the 'unlimited' stand-in sys.maxsize)"""
    unlimited = any(a == ("isnone", ("param", "limit")) and v is True for a, v in p.decisions)

    def is_limit(t):
        return t == ("param", "limit") or (unlimited and t and t[0] == "ext" and str(t[1]).endswith("maxsize"))
    for a, v in p.decisions:
        if a[0] == "ord":
            if is_limit(a[2]):
                return a[1], v
            if is_limit(a[1]):
                return a[2], {"<": ">", ">": "<", "=": "="}[v]
    return None, None


def dequeues(p):
    """events at which a node leaves the work list: list.pop, or an iteration step over a local list that is appended to
    (and never popped / inserted into) on this path -- Python iterates such a list in the order entries were appended"""
    pops = [e for e in p.events if e.kind == "local" and e.op == "list.pop"]
    grown = {e.kw["__var__"].t[1] for e in p.events if e.kind == "local" and e.op in ("list.append", "list.extend", "list.__iadd__")
             and e.kw.get("__var__") is not None}
    popped = {e.kw["__var__"].t[1] for e in pops if e.kw.get("__var__") is not None}
    marks = [e for e in p.events if e.kind == "mark" and e.op == "for-over-list" and e.kw.get("__var__") is not None
             and e.kw["__var__"].t[1] in grown and e.kw["__var__"].t[1] not in popped]
    # only marks of a list that grows *after* the step (inside the loop)
    marks = [m for m in marks if any(e.kind == "local" and e.op in ("list.append", "list.extend", "list.__iadd__") and e.idx > m.idx
                                     and e.kw.get("__var__") is not None and e.kw["__var__"].t[1] == m.kw["__var__"].t[1]
                                     for e in p.events)]
    # level by level: iteration over a list A that is replaced, after the loop, by a list B which was started empty and
    # filled during the loop -- all entries of one level are taken, in order, before any entry of the next
    rebinds = {(e.kw["__var__"].t[1], e.kw["__from__"].t[1]) for e in p.events if e.kind == "mark" and e.op == "rebind-list"}
    fresh = {e.kw["__var__"].t[1] for e in p.events if e.kind == "mark" and e.op == "fresh-list"}
    lvl_marks = [e for e in p.events if e.kind == "mark" and e.op == "for-over-list" and e.kw.get("__var__") is not None
                 and e not in marks and e.kw["__var__"].t[1] not in popped and e.kw["__var__"].t[1] not in grown
                 and any(a_ == e.kw["__var__"].t[1] and b_ in fresh for a_, b_ in rebinds)]
    return sorted(pops + marks + lvl_marks, key=lambda e: e.idx)


def run(M, rep, tier, only=None):
    ctx = Ctx(M, coarse=False)
    ctx.cfg.compose = False
    fctx = Ctx(M, coarse=False)
    fctx.cfg.compose = False
    fctx.cfg.opaque = {}
    fctx.cfg.loop_marks = True
    R1 = rep.rule("C13.R1", "the section finder and the source finder behave alike", floor=1,
                  technique="comparison of the abstract path sets of the two clones under the tree-kind renaming")
    R2 = rep.rule("C13.R2", "breadth-first queue discipline, level limit and filter application of the tree finders", floor=6,
                  technique="event order and guards on all abstract paths of each finder; argument provenance in the wrappers")
    R3 = rep.rule("C13.R3", "parent searches test membership of the entity itself and return the candidate that contains it",
                  floor=3, technique="guard / returned-term correspondence on all abstract paths")
    R4 = rep.rule("C13.R4", "each referring_<kind> scans the containers of that kind and selects by this entity's identity",
                  floor=9, technique="structure of the returned comprehension terms (iterated container, selecting condition)")
    R5 = rep.rule("C13.R5", "the referring family covers every class that can hold the link, over the whole tree", floor=2,
                  technique="comparison with the link containers / metadata setters found in the program model")

    # ------------------------------------------------------------------ R1 / R2 finders
    sigs = {}
    from .common import tree_finders
    tf = tree_finders(ctx)
    for q, kind in FINDERS:
        f = tf.get(kind)
        key = q.split(":")[-1]
        if f is None:
            rep.bad(R2, key, "required mechanism not found: %s" % q)
            continue
        try:
            paths = explore(fctx.cfg, f, None, None, 5000)
        except Budget:
            raise AnalysisError("C13: too many abstract paths in %s" % q)
        sigs[kind] = {norm_sig(p, kind) for p in paths}
        bad = None
        npop = 0
        lv1_alt = False
        for p in paths:
            if not p.normal:
                bad = (p, "the finder can fail with %s" % p.terminal[1].cls)
                break
            pops = dequeues(p)
            ins = [e for e in p.events if e.kind == "local" and e.op in ("list.insert", "list.remove")]
            if ins:
                bad = (p, "the work queue is modified other than at its ends (%s)" % ins[0].op)
                break
            for e in pops:
                npop += 1
                if e.kind == "mark":
                    continue            # iteration over a list that only grows at its end takes the entries in queue order
                if e.key is None or not is_const(e.key) or e.key.t[1] != 0:
                    bad = (p, "nodes are taken from the %s of the queue: the search is not breadth-first" % (
                        "tail" if e.key is not None and is_const(e.key) and e.key.t[1] == -1 else "middle"))
                    break
            if bad:
                break
            if not pops:
                continue
            pop = pops[0]
            lvl, rel = limit_relation(p)
            if lvl is None:
                bad = (p, "no comparison of the node's level with the limit decides whether its children are visited")
                break
            enq = [e for e in p.events if e.kind == "local" and e.op in ("list.extend", "list.append") and e.idx > pop.idx
                   and e.recv is not None and e.recv.t == pop.recv.t or
                   (e.kind == "local" and e.op == "list.extend" and e.idx > pop.idx)]
            # spec: children are visited iff level(node) + 1 <= limit
            if is_const_term(lvl):
                c = lvl[1]
                rootlevel = 0
                rootent = [v for a, v in p.decisions if a[0] == "isinst" and a[1][0] == "param"]
                if pop.kind == "mark" and rootent and rootent[0] is False and c == 2:
                    # level-by-level formulation below a file / block: its children are level 1, theirs are compared as 2
                    want = rel in ("<", "=")
                    lv1_alt = True
                else:
                    want = {1: rel in ("<", "="), 0: rel == "<"}.get(c - rootlevel + 0)
                    if c not in (0, 1):
                        bad = (p, "the start node is not at level 0 (its children are compared with the limit as level %s)" % c)
                        break
            else:
                s = show(lvl)
                plus1 = lvl[0] == "bin" and lvl[1] == "+" and ("const", 1) in (lvl[2], lvl[3])
                plain = lvl[0] == "attr" and lvl[2] == "level"
                if not (plus1 or plain):
                    bad = (p, "children are admitted by comparing %s with the limit (expected: level of the node + 1)" % s)
                    break
                want = rel in ("<", "=") if plus1 else rel == "<"
            if bool(enq) != bool(want):
                bad = (p, "children of a node at level L are %s although L + 1 %s limit" % (
                    "visited" if enq else "not visited", {"<": "<", "=": "==", ">": ">"}[rel] if not is_const_term(lvl) or lvl[1] == 1 else "?"))
                break
            calls = [e for e in p.events if e.kind == "callv" and e.idx > pop.idx]
            if len(calls) != len(pops):
                bad = (p, "the filter is applied %d time(s) to %d dequeued node(s)" % (len(calls), len(pops)))
                break
            fdec = [v for a, v in p.decisions if a[0] == "truthy" and a[1][0] == "call" and "filtr" in show(a[1])]
            app = [e for e in p.events if e.kind == "local" and e.op == "list.append" and e.idx > calls[0].idx]
            if fdec and bool(app) != bool(fdec[0]):
                bad = (p, "a node is %s the result although the filter said %s" % ("added to" if app else "left out of", fdec[0]))
                break
            ret = p.terminal[1].t
            nret = len(ret[1]) if ret[0] == "list" else None
            if fdec and nret is not None and nret != (1 if fdec[0] else 0):
                bad = (p, "the returned list does not consist of the nodes that passed the filter")
                break
        # second look with two unrolled iterations: no dequeued node may be skipped (it must be filtered, and its
        # children considered, whatever was seen before), and results keep the dequeue order
        if bad is None:
            f2 = Ctx(M, coarse=False, unroll=2)
            f2.cfg.compose = False
            f2.cfg.opaque = {}
            f2.cfg.loop_marks = True
            try:
                paths2 = explore(f2.cfg, f, None, None, 20000)
            except Budget:
                paths2 = []
            for p in paths2:
                if not p.normal:
                    continue
                pops = dequeues(p)
                calls = [e for e in p.events if e.kind == "callv"]
                if len(pops) >= 2 and len(calls) != len(pops):
                    bad = (p, "%d node(s) are dequeued but the filter is applied %d time(s): a node (and the subtree below it) can be "
                           "skipped depending on what was visited before" % (len(pops), len(calls)))
                    break
                # result order = dequeue order: an append to the result may only concern the node dequeued last
                for e in p.events:
                    if e.kind == "local" and e.op in ("list.append", "list.extend") and pops and e.idx > pops[0].idx and e.args:
                        a = e.args[0].t
                        if e.op == "list.extend" and any(x and x[0] == "comp" for x in subterms(a)) and \
                                any("filtr" in show(x) for x in subterms(a) if x and x[0] == "call"):
                            bad = (p, "children are put into the result directly (before the siblings of their parent): the result is not "
                                   "in breadth-first order")
                if bad:
                    break
        if bad is None and npop == 0:
            raise AnalysisError("C13.R2: the work-list idiom of %s is not one the rule knows (pop(0) from a list, or iteration over a "
                                "list that is only appended to): breadth-first order cannot be decided on this tree" % key)
        # children of a file/block start at level 1
        lv1 = False
        for p in paths:
            for (r, a), v in p.heap.items():
                if a == "level" and r[0] == "inst" and is_const(v) and v.t[1] == 1:
                    lv1 = True
        if bad is None and not lv1 and not lv1_alt:
            bad = (paths[0], "the children of a file/block are not entered at level 1")
        rep.check(R2, key, bad is None and npop > 0, bad[1] if bad else "no dequeue found", site=f.file + ":%d" % f.node.lineno,
                  detail=describe_path(bad[0]) if bad else None, what="%d paths, %d dequeues, all at the head" % (len(paths), npop))
    if len(sigs) == 2:
        a, b = sigs["sections"], sigs["sources"]
        diff = sorted(a ^ b, key=repr)
        rep.check(R1, "_find_sections ~ _find_sources", not diff, "the two tree finders differ in behaviour: %s" % (
            repr(diff[0])[:300] if diff else ""), what="%d abstract paths each" % len(a))

    # wrappers: limit None (and only None) means unlimited
    finder_quals = {f_.qual for f_ in tf.values() if f_ is not None}
    for cn, name in (("Section", "find_sections"), ("Source", "find_sources"), ("File", "find_sections"), ("Block", "find_sources")):
        f = ctx.member(cn, name)
        key = "%s.%s" % (cn, name)
        if f is None:
            rep.bad(R2, key, "required mechanism not found")
            continue
        bad = None
        n = 0
        for p in ctx.paths(f, cn):
            calls = [e for e in p.events if e.kind == "ocall" and e.op in finder_quals]
            if not calls:
                if p.normal:
                    bad = (p, "a path does not search at all")
                continue
            n += 1
            e = calls[0]
            lim = e.kw.get("limit") or (e.args[2] if len(e.args) > 2 else None)
            flt = e.kw.get("filtr") or (e.args[1] if len(e.args) > 1 else None)
            start = e.args[0] if e.args else None
            if start is None or start.t != ("self",):
                bad = (p, "the search does not start at this entity")
                break
            if flt is None or flt.t != ("param", "filtr"):
                bad = (p, "the given filter is not what the search applies")
                break
            nonedec = [v for a, v in p.decisions if a == ("isnone", ("param", "limit"))]
            if lim is not None and lim.t == ("param", "limit"):
                continue
            if lim is None and nonedec == []:
                continue        # the finder's own default
            if not (nonedec and nonedec[0] is True):
                bad = (p, "the given depth limit is replaced although it is not None (a limit of 0 is a legal depth)")
                break
        rep.check(R2, key, bad is None and n > 0, bad[1] if bad else "no searching path", site=f.file + ":%d" % f.node.lineno,
                  detail=describe_path(bad[0]) if bad else None)

    # ------------------------------------------------------------------ R3
    from .common import private_helper
    fpr = private_helper(ctx, "Source", "_find_parent_recursive", [("Source", "parent_source", "getters")],
                         pick=lambda h: h.cls is not None and h.cls.name == "Source")
    FPR = fpr.node.name if fpr is not None else "_find_parent_recursive"
    for cn, name, tb, contattr in (("Section", "parent", "getters", "sections"), ("Source", "parent_source", "getters", "sources"),
                                   ("Source", FPR, "methods", "sources")):
        f = ctx.member(cn, name, tb)
        key = "%s.%s" % (cn, name)
        if f is None:
            rep.bad(R3, key, "required mechanism not found")
            continue
        bad = None
        nret = 0
        for p in ctx.paths(f, cn):
            if not p.normal:
                continue
            rv = p.terminal[1]
            if is_const(rv):
                continue
            if rv.t[0] == "attr" and rv.t[1] == ("self",):
                # a remembered parent: fine iff that field is only ever given a containing parent (or None)
                why = parent_field_ok(M, cn, rv.t[2], f)
                if why:
                    bad = (p, "the parent is answered from self.%s, which %s: for an entity reached through a link that is the linking "
                           "entity, not the containing one" % (rv.t[2], why))
                    break
                continue
            nret += 1
            tests = [(a, v) for a, v in p.decisions if a[0] == "in" and v is True]
            ok = False
            for a, v in tests:
                item, cont = a[1], a[2]
                if not (cont[0] == "attr" and cont[2] == contattr):
                    continue
                cand = cont[1]
                ident = item == ("self",) or item == ("param", "child_id") or (
                    item[0] == "rd" and item[3] == ("const", "entity_id"))
                if ident and (cand == rv.t or any(x == cand for x in subterms(rv.t))):
                    ok = True
            if not ok:
                # membership test resolved and inlined (receiver type known): events of a container's __contains__ on the
                # returned candidate's own child group, with a key that derives from the searched item
                cand_grp = ("attr", rv.t, "_h5group") if rv.t != ("self",) else ("attr", ("self",), "_h5group")
                for e in p.events:
                    if e.kind == "layer" and any(q.endswith("Container.__contains__") for q in e.stack) and e.recv is not None \
                            and any(x == cand_grp for x in subterms(e.recv.t)) and e.key is not None and \
                            (params_of(e.key.t) & {"child_id"} or any(x == ("self",) for x in subterms(e.key.t))):
                        ok = True
            if name == "parent_source":
                # delegates to the recursive helper with this source's id
                calls = [e for e in p.events if e.kind in ("rcall", "ucall", "ocall") and FPR in e.op]
                ok = ok or any("entity_id" in show(e.args[0].t) or e.args[0].t == ("self",) for e in calls if e.args)
                ok = ok or FPR in show(rv.t)
            if name == FPR and FPR in show(rv.t):
                ok = True           # result of the recursive call on a child
            if not ok:
                bad = (p, "a parent is returned that was not found by testing membership of this entity in its children")
                break
        rep.check(R3, key, bad is None and nret > 0, bad[1] if bad else "no path returns a parent",
                  site=f.file + ":%d" % f.node.lineno, detail=describe_path(bad[0]) if bad else None)
    # the child test itself is by identity (shared with C05.R2)
    from .c05 import container_identity
    container_identity(M, rep, R3, ctx, ctx)
    # breadth-first order of Section.parent: candidates leave the work list at the head
    f = ctx.member("Section", "parent", "getters")
    if f is not None:
        # the search may sit in the getter or in private helpers it was moved into (a generator that hands out the candidates)
        fns, todo = [], [f]
        while todo:
            g_ = todo.pop()
            if g_ in fns:
                continue
            fns.append(g_)
            for q_ in ctx.cg.edges.get(g_.qual, ()):
                h_ = M.funcs.get(q_)
                if h_ is not None and h_.node.name.startswith("_") and not h_.node.name.startswith("__") and h_.module is f.module:
                    todo.append(h_)
        pops = [n for g_ in fns for n in ast.walk(g_.node)
                if isinstance(n, ast.Call) and isinstance(n.func, ast.Attribute) and n.func.attr in ("pop", "popleft")]
        okp = bool(pops) and all((n.func.attr == "popleft") or (n.args and isinstance(n.args[0], ast.Constant) and n.args[0].value == 0) for n in pops)
        rep.check(R3, "Section.parent/order", okp, "candidate sections are not taken from the head of the work list (not breadth-first)",
                  site=f.file + ":%d" % f.node.lineno)

    # ------------------------------------------------------------------ R4 / R5
    referring(M, rep, ctx, R4, R5)


def parent_field_ok(M, cn, field, getter):
    """None if every assignment to <x>.<field> in the package gives it a containing parent: None, the candidate found by the search
    inside the getter itself, or `self` inside a create_* method of the class (the creator contains what it creates)"""
    for q, f in M.funcs.items():
        if f.module.name.startswith("nixio.cmd"):
            continue
        for n in ast.walk(f.node):
            if not isinstance(n, ast.Assign):
                continue
            for t in n.targets:
                if isinstance(t, ast.Attribute) and t.attr == field:
                    v = n.value
                    if isinstance(v, ast.Constant) and v.value is None:
                        continue
                    if f is getter:
                        continue
                    if f.name.startswith("create_") and isinstance(v, ast.Name) and f.params and v.id == f.params[0]:
                        continue
                    return "is also set in %s from %s" % (q.split(":")[-1], ast.unparse(v)[:40])
    return None


def is_const_term(t):
    return t[0] == "const"


def comps_of(t):
    return [x for x in subterms(t) if x and x[0] == "comp"]


def source_kinds(M, t):
    """names under which the iterated container is known: the accessor's name, or the accessor that created the container"""
    out = set()
    for x in subterms(t):
        if not x:
            continue
        if x[0] == "attr":
            out.add(x[2].lstrip("_"))
        elif x[0] in ("mcall",) and isinstance(x[1], str):
            out.add(x[1])
        elif x[0] == "call" and isinstance(x[1], str):
            out.add(x[1].split(".")[-1].split(":")[-1])
        elif x[0] == "inst" and len(x) > 2 and isinstance(x[2], str):
            m = x[2].split("#")[0].split(":")
            if len(m) >= 2 and m[1].isdigit():
                for f in M.funcs.values():
                    if f.file.split("/")[-1] == m[0] and f.node.lineno <= int(m[1]) <= (f.node.end_lineno or f.node.lineno):
                        out.add(f.node.name.lstrip("_"))
    return out


def selects(cn, cnd):
    """is this condition the link test: the candidate's metadata id equals this section's id / this source is among the
    candidate's sources"""
    for x in subterms(cnd):
        if not x or x[0] not in ("cmp", "eq", "in") or len(x) < 3:
            continue
        sides = (x[2], x[3]) if x[0] == "cmp" else (x[1], x[2])
        op = x[1] if x[0] == "cmp" else ("in" if x[0] == "in" else "==")

        def mentions(t, attr):
            return any(y and ((y[0] == "attr" and y[2] == attr) or (y[0] == "rd" and y[3] == ("const", attr))) for y in subterms(t))

        def is_self_id(t):
            return any(y and ((y[0] == "attr" and y[1] == ("self",) and y[2] == "id") or
                              (y[0] == "rd" and y[3] == ("const", "entity_id") and ("self",) in set(subterms(y[2])))) for y in subterms(t)) \
                and not mentions(t, "metadata")
        if cn == "Section" and op in ("==", "eq"):
            for a, b in (sides, sides[::-1]):
                if mentions(a, "metadata") and (mentions(a, "id") or mentions(a, "entity_id")) and is_self_id(b):
                    return True
        if cn == "Source":
            a, b = sides
            if op == "in" and (a == ("self",) or is_self_id(a)) and mentions(b, "sources"):
                return True
    return False


def referring(M, rep, ctx, R4, R5):
    fam = {}
    kinds_by = {}
    rctx = Ctx(M, coarse=False)
    rctx.cfg.compose = False
    for cn in ("Section", "Source"):
        c = M.classes.get(cn)
        if c is None:
            rep.bad(R4, cn, "required mechanism not found")
            continue
        for name, g in sorted(c.getters.items()):
            if not name.startswith("referring_") or name == "referring_objects":
                continue
            kind = name[len("referring_"):]
            key = "%s.%s" % (cn, name)
            fam.setdefault(cn, {})[kind] = g
            # on the abstract paths of the getter (helpers inlined): what is collected is an element of which container,
            # selected by which comparison
            try:
                paths = explore(rctx.cfg, g, cn, None, 6000)
            except Budget:
                raise AnalysisError("C13.R4: %s has too many abstract paths" % key)
            kinds = set()
            sel = False
            truth = None
            for p in paths:
                comps = []
                if p.terminal[0] == "return":
                    comps += comps_of(p.terminal[1].t)
                conds = [a for a, v in p.decisions if v]
                for e in p.events:
                    if e.kind == "local" and e.op in ("list.extend", "list.append", "list.__iadd__", "list.insert") and e.args:
                        for a in e.args:
                            comps += comps_of(a.t)
                            if a.t and a.t[0] == "elem":
                                kinds |= source_kinds(M, a.t[1])
                for cp in comps:
                    for src in cp[3]:
                        kinds |= source_kinds(M, src)
                    conds += list(cp[4])
                for cnd in conds:
                    if selects(cn, cnd):
                        sel = True
                for a_, v_ in p.decisions:
                    if a_[0] == "truthy" and a_[1] and ((a_[1][0] == "attr" and a_[1][2] == "metadata") or
                                                        (a_[1][0] == "inst" and a_[1][1] == "Section")):
                        truth = a_
            okc = kind in kinds or ("find_" + kind) in kinds
            kinds_by[(cn, kind)] = set(kinds)
            why = "does not select by `metadata.id == self.id`" if cn == "Section" else \
                "does not select by membership of this source in the candidate's sources"
            if okc and sel and truth is not None:
                rep.bad(R4, key, "%s tests the truth value of a candidate's metadata section (%s): a section is falsy while it has no "
                        "properties, so objects linked to an empty section drop out of the list" % (key, show(truth)[:80]),
                        site=g.file + ":%d" % g.node.lineno)
                continue
            rep.check(R4, key, okc and sel, "%s %s" % (key, ("does not iterate the %s containers (iterates %s)" % (kind, sorted(kinds)))
                                                      if not okc else why), site=g.file + ":%d" % g.node.lineno,
                      what="iterates %s" % sorted(kinds))
        ro = c.getters.get("referring_objects")
        if ro is None:
            rep.bad(R4, cn + ".referring_objects", "required mechanism not found")
        else:
            used = {n.attr[len("referring_"):] for n in ast.walk(ro.node) if isinstance(n, ast.Attribute) and n.attr.startswith("referring_")}
            if set(fam.get(cn, {})) - used:
                # not all named in the source text: which of the getters run on the abstract paths of the union (a loop over a
                # table of kinds with getattr, a helper)
                try:
                    for p_ in explore(rctx.cfg, ro, cn, None, 6000):
                        for e_ in p_.events:
                            for kind_, g_ in fam.get(cn, {}).items():
                                if g_.qual in e_.stack:
                                    used.add(kind_)
                except Budget:
                    pass
            missing = sorted(set(fam.get(cn, {})) - used)
            rep.check(R4, cn + ".referring_objects", not missing, "%s.referring_objects leaves out referring_%s" % (cn, ", referring_".join(missing)),
                      site=ro.file + ":%d" % ro.node.lineno, what="union of %s" % sorted(used))
    # R5: which classes can hold the links (from the model)
    kind_of = {"Block": "blocks", "Group": "groups", "DataArray": "data_arrays", "DataFrame": "data_frames", "Tag": "tags",
               "MultiTag": "multi_tags", "Source": "sources"}
    src_holders = []
    meta_holders = []
    for cn in ENTITY_CLASSES:
        c = M.classes.get(cn)
        if c is None or cn not in kind_of:
            continue
        g = M.lookup(c, "sources", "getters")
        if g is not None and any(isinstance(n, ast.Call) and isinstance(n.func, ast.Name) and n.func.id == "SourceLinkContainer"
                                 for n in ast.walk(g.node)):
            src_holders.append(cn)
        if M.lookup(c, "metadata", "setters") is not None:
            meta_holders.append(cn)
    for cn in src_holders:
        k = kind_of[cn]
        rep.check(R5, "Source.referring_%s" % k, k in fam.get("Source", {}), "%s objects can link sources (%s.sources) but Source has no "
                  "referring_%s: such links are missing from the inverse lists" % (cn, cn, k))
    for cn in meta_holders:
        k = kind_of[cn]
        rep.check(R5, "Section.referring_%s" % k, k in fam.get("Section", {}), "%s objects can link a metadata section but Section has no "
                  "referring_%s" % (cn, k))
    # sources form a tree: sections linked by nested sources must be found
    g = fam.get("Section", {}).get("sources")
    if g is not None:
        # (what the getter iterates was established on its abstract paths above: the tree search, not the top-level container)
        deep = "find_sources" in kinds_by.get(("Section", "sources"), set()) or \
            any(isinstance(n, ast.Attribute) and n.attr == "find_sources" for n in ast.walk(g.node))
        rep.check(R5, "Section.referring_sources/depth", deep, "Section.referring_sources looks at the top-level sources of each block "
                  "only: a nested source that links this section is not reported", site=g.file + ":%d" % g.node.lineno)
