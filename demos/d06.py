import nixio, os, tempfile
p = os.path.join(tempfile.mkdtemp(), 'a.nix')
f = nixio.File.open(p, 'w')
b1 = f.create_block('b1', 't'); b2 = f.create_block('b2', 't')
a1 = b1.create_data_array('x', 't', data=[1., 2.]); a2 = b2.create_data_array('x', 't', data=[3., 4.])
g = b1.create_group('g', 't')
try:
    g.data_arrays.append(a2)        # an array of ANOTHER block that happens to have the same name
    raise SystemExit("D6: a foreign array of the same name was accepted into the group (len=%d)" % len(g.data_arrays))
except RuntimeError:
    print("refused")
assert a2 not in b1.data_arrays and a1 in b1.data_arrays
sa = f.create_section('A', 't'); sb = f.create_section('B', 't')
xa = sa.create_section('X', 't'); xb = sb.create_section('X', 't')
assert xb.parent.name == 'B' or xb.parent == sb, "D6: B/X reports parent %s" % xb.parent.name
print("ok")
