import nixio, os, tempfile
p=os.path.join(tempfile.mkdtemp(),'a.nix')
f=nixio.File.open(p,'w'); b=f.create_block('b','t'); da=b.create_data_array('a','t',data=[[1.,2.],[3.,4.]])
other=b.create_data_array('o','t',data=[1.,2.,3.])
d=da.append_range_dimension(ticks=[1.,2.])
try:
    d.link_data_array(other, [0, -1])   # wrong dimensionality -> refused
    raise SystemExit("not refused?")
except ValueError as e:
    print("refused:", type(e).__name__)
print("ticks after refused call:", d.ticks)
assert d.ticks == (1.,2.), "D22: refused link_data_array destroyed the ticks"
