from nixio.util import units
a = units.sanitizer("mmu"); b = units.sanitizer(a)
print(repr(a), repr(b)); assert a == b, "D3: not idempotent"
