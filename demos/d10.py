import nixio, os, tempfile
f=nixio.File.open(os.path.join(tempfile.mkdtemp(),'a.nix'),'w'); b=f.create_block('b','t')
u="550e8400-e29b-41d4-a716-446655440000"
da=b.create_data_array(u,'t',data=[1.])
assert u in b.data_arrays, "D10: created under a UUID-looking name but `name in container` is False"
print(b.data_arrays[u].name)
