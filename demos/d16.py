import nixio, os, tempfile
p = os.path.join(tempfile.mkdtemp(), 'a.nix')
f = nixio.File.open(p, 'w'); b = f.create_block('b', 't'); s = f.create_section('s', 't')
top = b.create_source('top', 't'); nested = top.create_source('nested', 't')
nested.metadata = s
names = [x.name for x in s.referring_sources]
assert names == ['nested'], "D16: a nested source linking the section is not reported: %s" % names
assert [x.name for x in s.referring_objects] == ['nested']
print("ok")
