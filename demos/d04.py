import nixio, os, tempfile
import numpy as np
p = os.path.join(tempfile.mkdtemp(), 'a.nix')
f = nixio.File.open(p, 'w'); b = f.create_block('b', 't')
da = b.create_data_array('a', 't', data=np.arange(10.0))
v = da.get_slice((2,), (5,))          # view on elements 2..6
v[0] = 99.0
got = list(da[:])
want = list(np.arange(10.0)); want[2] = 99.0
assert got == want, "D4: view[0] = x overwrote %s" % got
print("ok")
