import nixio, os, tempfile
p = os.path.join(tempfile.mkdtemp(), 'a.nix')
f = nixio.File.open(p, 'w'); b = f.create_block('b', 't'); s = f.create_section('s', 't')
src = b.create_source('src', 't'); g = b.create_group('g', 't'); g.sources.append(src)
assert [x.name for x in src.referring_objects] == ['g'], "D15: a group linking the source is missing from referring_objects"
df = b.create_data_frame('df', 't', col_dict={'a': int}); df.metadata = s
assert [x.name for x in s.referring_objects] == ['df'], "a data frame linking the section is missing from referring_objects"
print("ok")
