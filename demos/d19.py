import nixio, os, tempfile
p=os.path.join(tempfile.mkdtemp(),'a.nix')
f=nixio.File.open(p,'w'); b=f.create_block('b','t'); da=b.create_data_array('a','t',data=[1.,2.,3.])
da.force_updated_at(1000)
da.append_range_dimension_using_self()
print('updated_at after append_range_dimension_using_self:', da.updated_at)
assert da.updated_at != 1000, "D19: update time not touched"
f.close()
