import nixio, os, tempfile
p=os.path.join(tempfile.mkdtemp(),'a.nix')
f=nixio.File.open(p,'w'); b=f.create_block('b','t'); da=b.create_data_array('a','t',data=list(range(20)))
d=da.append_sampled_dimension(1.0, offset=-3.0)
# samples at -3,-2,-1,0,1...: last sample strictly before 0 is index 2; none strictly before -3
assert d.index_of(0.0, nixio.IndexMode.Less) == 2
try:
    r = d.index_of(-3.0, nixio.IndexMode.Less); raise AssertionError("D5: returned %r" % r)
except IndexError: pass
print("ok")
