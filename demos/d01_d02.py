from nixio.util import units
assert abs(units.scaling("mV", "kV") - 1e-6) < 1e-18, units.scaling("mV", "kV")
assert units.split("mmol") == ("m", "mol", ""), units.split("mmol")
assert units.split("mSv") == ("m", "Sv", ""), units.split("mSv")
assert units.scalable("mmol", "mol")
print("ok")
