import nixio, os, tempfile
from nixio.exceptions import DuplicateName
d=tempfile.mkdtemp()
f=nixio.File.open(os.path.join(d,'a.nix'),'w')
# D8: section named like a UUID can be created twice, id of the first changes
u="550e8400-e29b-41d4-a716-446655440000"
s1=f.create_section(u,'t'); id1=s1.id
try:
    f.create_section(u,'t'); raise AssertionError("D8: duplicate section name accepted (id %s -> %s)" % (id1, f.sections[0].id))
except DuplicateName: pass
# D9: duplicate data frame name
b=f.create_block('b','t')
df=b.create_data_frame('df','t',col_dict={'a':int}); i1=df.id
try:
    b.create_data_frame('df','t',col_dict={'a':int}); raise AssertionError("D9: duplicate data frame accepted")
except DuplicateName: pass
# D20/D21: copy_section with a new name returns the copy; duplicates at the destination are refused
g=nixio.File.open(os.path.join(d,'b.nix'),'w')
src=g.create_section('orig','t'); src.create_property('p',[1])
c=f.copy_section(src, name='copy1')
assert c.name=='copy1', "D21: copy_section returned %r" % c.name
try:
    f.copy_section(src, name='copy1'); raise AssertionError("D20: duplicate destination name accepted")
except NameError: pass
assert 'sections' not in f._h5group.group, "D20: stray root group 'sections'"
c2=f.copy_section(src, children=False, name='copy2'); assert c2.name=='copy2' and len(c2.props)==1
print('ok')
