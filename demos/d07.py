import nixio, os, tempfile
p = os.path.join(tempfile.mkdtemp(), 'a.nix')
f = nixio.File.open(p, 'w'); b = f.create_block('b', 't'); s = f.create_section('s', 't')
src = b.create_source('src', 't'); src.metadata = s
del src.metadata
assert len(b.sources) == 1, "D7: del source.metadata removed the (child-less) source itself"
g = b.create_group('g', 't'); g.metadata = s; del g.metadata
assert len(b.groups) == 1, "D7: del group.metadata removed the group"
print("ok")
