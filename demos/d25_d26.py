import nixio, os, tempfile
p = os.path.join(tempfile.mkdtemp(), 'a.nix')
f = nixio.File.open(p, 'w'); b = f.create_block('b', 't')
# D26: a same-file copy that keeps the id must still return the COPY
da = b.create_data_array('a', 't', data=[1., 2.])
cp = b.create_data_array(copy_from=da, name='a2', keep_copy_id=True)
assert cp.name == 'a2', "D26: create_data_array(copy_from=..., name='a2') returned %r (the original)" % cp.name
b2 = f.create_block(copy_from=b, name='b2', keep_copy_id=True)
assert b2.name == 'b2', "D26: create_block(copy_from=...) returned %r" % b2.name
# D25: a non-recursive section copy
s = f.create_section('s', 't'); s.create_property('p', [1, 2]); s.create_section('child', 't')
dst = f.create_section('dst', 't')
c = dst.copy_section(s, children=False, name='copy', keep_id=False)
assert [x.name for x in c.props] == ['p'] and len(c.sections) == 0, "D25: children=False copied %s / %s" % ([x.name for x in c.props], [x.name for x in c.sections])
print("ok")
