import nixio, os, tempfile, numpy as np
p=os.path.join(tempfile.mkdtemp(),'a.nix')
f=nixio.File.open(p,'w'); s=f.create_section('s','t')
try:
    s.create_property('p', np.array([1,2], dtype=np.int32))
except Exception as e: print(type(e).__name__, e)
print('props:', [x.name for x in s.props])
