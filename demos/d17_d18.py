import nixio, os, tempfile
import numpy as np
p = os.path.join(tempfile.mkdtemp(), 'a.nix')
f = nixio.File.open(p, 'w'); b = f.create_block('b', 't')
df = b.create_data_frame('df', 't', col_dict={'a': int, 'b': float}, data=[(1, 1.5), (2, 2.5)])
df.write_column([7, 8], index=0)                      # D17: column index 0 was refused ("Either index or name must not be None")
assert [int(x) for x in df.read_columns(index=[0])] == [7, 8]
df.append_column([10, 20], 'c', datatype=int)
df.append_rows([(3, 3.5, 30)])                        # D18: after append_column the dataset was contiguous: "Only chunked datasets can be resized"
assert df.shape == (3,) and int(df.read_cell(position=(2, 2))) == 30
print("ok")
